/-
C07 — a JSON snapshot restores a behaviourally identical book.
Property theorems only. `save` = the serialised fields, `load` = the rebuild loop of
`TryFrom<OrderBookState>`; the JSON text itself is `Model/Json.lean` (both writers, the reader, the
field encoding), compared character by character with what `serde_json` writes on every run.
-/
import Bourse.Model.Ops
import Bourse.Lemmas.Reach
import Bourse.Lemmas.NoOverflow
import Bourse.Lemmas.JsonParse
import Bourse.Lemmas.JsonSnap

namespace Bourse.Props.C07
open Bourse

/-- Everything that is serialised comes back verbatim: time, tick size, traded-volume counter,
trading flag, the complete order table (including keys) and the trade log. -/
theorem reload_serialised_fields (b : Book) :
    b.reload.t = b.t ∧ b.reload.tick = b.tick ∧ b.reload.tradeVol = b.tradeVol ∧
    b.reload.trading = b.trading ∧ b.reload.orders = b.orders ∧ b.reload.trades = b.trades := by
  simp [Book.reload, Book.load, Book.save]

/-- Only Active orders are put back into the queues; each goes to the side of its order under its
*stored* key with its *remaining* volume. -/
theorem loadStep_spec (acc : SideS × SideS × Nat) (e : Entry) :
    (e.order.status ≠ .active → Book.loadStep acc e = acc) ∧
    (e.order.status = .active → e.order.side = .bid →
      Book.loadStep acc e = (acc.1.insertOrder e.key.pk e.key.st e.order.id e.order.vol, acc.2.1,
                             max acc.2.2 (e.key.st + 1))) ∧
    (e.order.status = .active → e.order.side = .ask →
      Book.loadStep acc e = (acc.1, acc.2.1.insertOrder e.key.pk e.key.st e.order.id e.order.vol,
                             max acc.2.2 (e.key.st + 1))) := by
  refine ⟨fun h => by simp [Book.loadStep, h], fun h hs => by simp [Book.loadStep, h, hs],
          fun h hs => by simp [Book.loadStep, h, hs]⟩

/-- If a reload restores the two side indexes and the stamp counter, the reloaded book is the
original and therefore indistinguishable from it under every continuation. -/
theorem reload_indistinguishable (b : Book) (hb : b.reload.bid = b.bid) (ha : b.reload.ask = b.ask)
    (hs : b.reload.stamp = b.stamp) (hf : b.fault = false) (ops : List Op) :
    b.reload.run ops = b.run ops := by
  have : b.reload = b := by
    have h := reload_serialised_fields b
    cases b
    simp_all [Book.reload, Book.load, Book.save]
  rw [this]

/-- **`load (save s) = s`** — the whole model state, both rebuilt side indexes and the stamp counter
included — for every state satisfying the book invariant. -/
theorem load_save (b : Book) (h : Inv b) : Book.load (Book.save b) = b := reload_eq h

/-- **Every reachable state round-trips, and stays indistinguishable under every continuation**:
after any valid fault-free history from a new book, the reloaded book is the original, hence so is
every later state and observation, whatever operations follow. -/
theorem reload_reachable_indistinguishable (t0 tick : Nat) (trading : Bool) (ht : 0 < tick) (ops : List Op)
    (hv : ∀ op ∈ ops, ValidOp op) (hnf : NoFault (Book.new t0 tick trading) ops) (cont : List Op) (n : Nat) :
    ((Book.new t0 tick trading).run ops).reload = (Book.new t0 tick trading).run ops ∧
    (((Book.new t0 tick trading).run ops).reload.run cont).observe n =
      (((Book.new t0 tick trading).run ops).run cont).observe n := by
  have h := reload_eq (inv_reachable t0 tick trading ht ops hv hnf)
  exact ⟨h, by rw [h]⟩

/-- The snapshot point may be anywhere inside a history: a reload in the middle of a valid
fault-free history is the identity step of the model. -/
theorem reload_step_is_identity (b : Book) (h : Inv b) : (b.step .reload).1 = b := by
  simp only [Book.step]
  split
  · rfl
  · exact reload_eq h

/-- Non-vacuity and a concrete instance of the round trip: a book holding unplaced, active,
partially filled, modified, cancelled, filled and rejected orders, trading off, reloads to exactly
itself (whole model state, both rebuilt indexes included). -/
theorem reload_concrete :
    let b := (Book.new 0 1 true).run [.cap .ask 5 1 (some 10), .time 1, .cap .ask 7 2 (some 10), .time 2,
      .cap .bid 3 3 (some 10), .time 3, .cap .bid 4 4 (some 8), .time 4, .cap .bid 6 5 (some 8),
      .create .bid 2 6 (some 7), .time 5, .cancel 3, .time 6, .modify 4 (some 9) (some 9),
      .trading false, .cap .ask 1 7 none, .time 7, .modify 1 none (some 4)]
    b.reload = b ∧ (b.orders.map (·.order.status)) =
      [.active, .active, .filled, .cancelled, .active, .new, .rejected] := by
  decide

/-- `reload_reachable_indistinguishable` for valid histories as the property states them. -/
theorem reload_indistinguishable_valid (t0 tick : Nat) (trading : Bool) (ops : List Op)
    (h : ValidHistory t0 tick trading ops) (cont : List Op) (n : Nat) :
    ((Book.new t0 tick trading).run ops).reload = (Book.new t0 tick trading).run ops ∧
    (((Book.new t0 tick trading).run ops).reload.run cont).observe n =
      (((Book.new t0 tick trading).run ops).run cont).observe n :=
  reload_reachable_indistinguishable t0 tick trading h.tick_pos ops h.ops_valid h.noFault cont n

/-! ### The JSON text: a snapshot cut short at any byte is rejected -/

open Bourse.Json in
/-- **Every object either writer produces, cut short anywhere, is rejected by the reader.** For any
JSON object whose strings contain no quote, and any strict prefix `p` (including the empty text) of
its compact or pretty rendering, `Json.parse p = none`: the reader accepts only balanced texts
(`parse_balanced`), and every non-empty strict prefix of a written object is scanned to bracket
depth ≥ 1 (`wrap_prefix_depth`). -/
theorem truncated_object_rejected (l : List (List Char × J)) (hwf : (J.obj l).WF) (pretty : Bool)
    (p : List Char)
    (hp : p <+: (if pretty then renderPretty 0 (.obj l) else renderCompact (.obj l)))
    (hne : p ≠ (if pretty then renderPretty 0 (.obj l) else renderCompact (.obj l))) :
    parse p = none := by
  have hm : WFMembers l := by simpa [J.WF] using hwf
  cases pretty with
  | false =>
    simp only [Bool.false_eq_true, if_false] at hp hne
    rw [renderCompact] at hp hne
    exact prefix_rejected_of_good (renderMembersC_good l hm) p hp hne
  | true =>
    simp only [if_true] at hp hne
    cases l with
    | nil =>
      rw [renderPretty] at hp hne
      have h0 : lit "{}" = '{' :: ([] : List Char) ++ ['}'] := by decide
      rw [h0] at hp hne
      exact prefix_rejected_of_good good_nil p hp hne
    | cons x r =>
      rw [renderPretty] at hp hne
      have hin : Good ('\n' :: renderMembersP (0 + 1) (x :: r) ++ '\n' :: indent 0) :=
        good_cons (by decide) (good_append (renderMembersP_good (0 + 1) (x :: r) hm)
          (good_cons (by decide) (indent_good 0)))
      have heq : '{' :: '\n' :: renderMembersP (0 + 1) (x :: r) ++ '\n' :: indent 0 ++ ['}'] =
          '{' :: ('\n' :: renderMembersP (0 + 1) (x :: r) ++ '\n' :: indent 0) ++ ['}'] := by
        simp [List.append_assoc]
      rw [heq] at hp hne
      exact prefix_rejected_of_good hin p hp hne

open Bourse.Json in
theorem sideJ_wf (sd : Side) : (sideJ sd).WF := by cases sd <;> simp [sideJ, J.WF] <;> decide
open Bourse.Json in
theorem statusJ_wf (st : Status) : (statusJ st).WF := by cases st <;> simp [statusJ, J.WF] <;> decide

open Bourse.Json in
theorem entryJ_wf (e : Entry) : (entryJ e).WF := by
  have h1 := sideJ_wf e.order.side
  have h2 := statusJ_wf e.order.status
  have h3 := sideJ_wf e.key.side
  simp only [entryJ, orderJ, keyJ, J.WF, WFMembers, WFList, and_true, h1, h2, h3, true_and]
  decide

open Bourse.Json in
theorem tradeJ_wf (t : Trade) : (tradeJ t).WF := by
  have h1 := sideJ_wf t.side
  simp only [tradeJ, J.WF, WFMembers, and_true, h1, true_and]
  decide

open Bourse.Json in
theorem wfList_map {α} (f : α → J) (hf : ∀ a, (f a).WF) (l : List α) : WFList (l.map f) := by
  induction l with
  | nil => simp [WFList]
  | cons a l ih => simp only [List.map_cons, WFList]; exact ⟨hf a, ih⟩

open Bourse.Json in
theorem snapJ_wf (s : Snap) : (snapJ s).WF := by
  have h1 := wfList_map entryJ entryJ_wf s.orders
  have h2 := wfList_map tradeJ tradeJ_wf s.trades
  simp only [snapJ, J.WF, WFMembers, and_true, h1, h2, true_and]
  decide

open Bourse.Json in
theorem marketJ_wf (books : List Snap) : (marketJ books).WF := by
  have h1 := wfList_map snapJ snapJ_wf books
  simp only [marketJ, J.WF, WFMembers, and_true, h1]
  decide

open Bourse.Json in
/-- **C07, last sentence, for a book.** The text `save_json` writes for ANY book state (compact or
pretty), cut short at ANY offset `k` — the empty file included — is not loaded: the reader returns
an error (`none`), it neither yields a different book nor diverges (the reader is a total function). -/
theorem truncated_snapshot_rejected (b : Book) (pretty : Bool) (k : Nat)
    (hk : k < (saveText b pretty).length) : loadText ((saveText b pretty).take k) = none := by
  have hrej : parse ((saveText b pretty).take k) = none := by
    unfold saveText at hk ⊢
    have hwf := snapJ_wf b.save
    have hobj : ∃ l, snapJ b.save = .obj l := ⟨_, rfl⟩
    obtain ⟨l, hl⟩ := hobj
    rw [hl] at hwf hk ⊢
    apply truncated_object_rejected l hwf pretty
    · cases pretty <;> exact List.take_prefix _ _
    · intro heq
      have := congrArg List.length heq
      rw [List.length_take] at this
      cases pretty <;> simp only [Bool.false_eq_true, if_false, if_true] at this hk <;> omega
  simp [loadText, hrej]

open Bourse.Json in
/-- **The same for a multi-asset market file** (`{"order_books":[…]}`), any number of books. -/
theorem truncated_market_snapshot_rejected (books : List Book) (pretty : Bool) (k : Nat)
    (hk : k < (if pretty then renderPretty 0 (marketJ (books.map Book.save))
               else renderCompact (marketJ (books.map Book.save))).length) :
    parse ((if pretty then renderPretty 0 (marketJ (books.map Book.save))
            else renderCompact (marketJ (books.map Book.save))).take k) = none := by
  have hwf := marketJ_wf (books.map Book.save)
  have hobj : ∃ l, marketJ (books.map Book.save) = .obj l := ⟨_, rfl⟩
  obtain ⟨l, hl⟩ := hobj
  rw [hl] at hwf hk ⊢
  apply truncated_object_rejected l hwf pretty
  · exact List.take_prefix _ _
  · intro heq
    have := congrArg List.length heq
    rw [List.length_take] at this
    omega

open Bourse.Json in
/-- **Reading back what either writer wrote gives the value written**: `parse (render j) = some j`
for every JSON value whose strings need no escaping (all snapshot values), compact and pretty. -/
theorem text_round_trip (j : J) (h : j.WF2) :
    parse (renderCompact j) = some j ∧ parse (renderPretty 0 j) = some j :=
  ⟨parse_renderCompact j h, parse_renderPretty j h⟩

open Bourse.Json in
/-- **C07, first sentence, down to the bytes.** For every book state satisfying the invariant whose
numbers fit their Rust field types, the text `save_json` writes — compact or pretty — loads back, through
the reader, the field decoding and the rebuild loop, to exactly the book that was saved: whole
state, both rebuilt indexes and the stamp counter included. -/
theorem loadText_saveText (b : Book) (h : Inv b) (hfit : SnapFits b.save) (pretty : Bool) :
    loadText (saveText b pretty) = some b := by
  unfold loadText
  rw [decode_saveText b pretty hfit]
  simp only [Option.map_some]
  exact congrArg some (reload_eq h)

open Bourse.Json in
/-- … in particular after every valid history, and the reloaded book then stays indistinguishable
under every continuation (`reload_indistinguishable_valid`). -/
theorem loadText_saveText_valid (t0 tick : Nat) (trading : Bool) (ops : List Op)
    (h : ValidHistory t0 tick trading ops) (pretty : Bool)
    (hfit : SnapFits ((Book.new t0 tick trading).run ops).save) :
    loadText (saveText ((Book.new t0 tick trading).run ops) pretty) = some ((Book.new t0 tick trading).run ops) :=
  loadText_saveText _ h.inv hfit pretty

open Bourse.Json in
/-- **The same for a multi-asset market file**: `Market::save_json` then `Market::<n,_>::load_json`
gives back every book, for any number of assets. -/
theorem loadMarketText_saveMarketText (books : List Book) (pretty : Bool)
    (hfit : ∀ b ∈ books, SnapFits b.save) (hinv : ∀ b ∈ books, Inv b) :
    loadMarketText books.length (saveMarketText books pretty) = some books :=
  Json.loadMarketText_saveMarketText books pretty hfit hinv

open Bourse.Json in
/-- Non-vacuity / concrete instance (kernel evaluation): the full texts of a book with a partially
filled, a filled and an unplaced order load back to exactly that book, compact and pretty, and the
compact text is the one `serde_json` writes (checked against the real crate on every run). -/
theorem snapshot_text_concrete :
    let b := (Book.new 0 1 true).run [.cap .ask 5 1 (some 10), .time 1, .cap .bid 3 3 (some 10), .create .bid 2 6 (some 7)]
    loadText (saveText b false) = some b ∧ loadText (saveText b true) = some b ∧
    (saveText b false).length = 663 := by
  decide +kernel

end Bourse.Props.C07
