/-
C07 — a JSON snapshot restores a behaviourally identical book.
Property theorems only. The JSON text is opaque (`save` = the serialised fields); `load` is the
rebuild loop of `TryFrom<OrderBookState>`.
-/
import Bourse.Model.Ops
import Bourse.Lemmas.Reach
import Bourse.Lemmas.NoOverflow

namespace Bourse.Props.C07
open Bourse

/-- Everything that is serialised comes back verbatim: time, tick size, traded-volume counter,
trading flag, the complete order table (including keys) and the trade log. -/
theorem reload_serialised_fields (b : Book) :
    b.reload.t = b.t ∧ b.reload.tick = b.tick ∧ b.reload.tradeVol = b.tradeVol ∧
    b.reload.trading = b.trading ∧ b.reload.orders = b.orders ∧ b.reload.trades = b.trades := by
  simp [Book.reload, Book.load, Book.save]

/-- Only Active orders are put back into the queues; each goes to the side of its order under its
*stored* key with its *remaining* volume. -/
theorem loadStep_spec (acc : SideS × SideS × Nat) (e : Entry) :
    (e.order.status ≠ .active → Book.loadStep acc e = acc) ∧
    (e.order.status = .active → e.order.side = .bid →
      Book.loadStep acc e = (acc.1.insertOrder e.key.pk e.key.st e.order.id e.order.vol, acc.2.1,
                             max acc.2.2 (e.key.st + 1))) ∧
    (e.order.status = .active → e.order.side = .ask →
      Book.loadStep acc e = (acc.1, acc.2.1.insertOrder e.key.pk e.key.st e.order.id e.order.vol,
                             max acc.2.2 (e.key.st + 1))) := by
  refine ⟨fun h => by simp [Book.loadStep, h], fun h hs => by simp [Book.loadStep, h, hs],
          fun h hs => by simp [Book.loadStep, h, hs]⟩

/-- If a reload restores the two side indexes and the stamp counter, the reloaded book is the
original and therefore indistinguishable from it under every continuation. -/
theorem reload_indistinguishable (b : Book) (hb : b.reload.bid = b.bid) (ha : b.reload.ask = b.ask)
    (hs : b.reload.stamp = b.stamp) (hf : b.fault = false) (ops : List Op) :
    b.reload.run ops = b.run ops := by
  have : b.reload = b := by
    have h := reload_serialised_fields b
    cases b
    simp_all [Book.reload, Book.load, Book.save]
  rw [this]

/-- **`load (save s) = s`** — the whole model state, both rebuilt side indexes and the stamp counter
included — for every state satisfying the book invariant. -/
theorem load_save (b : Book) (h : Inv b) : Book.load (Book.save b) = b := reload_eq h

/-- **Every reachable state round-trips, and stays indistinguishable under every continuation**:
after any valid fault-free history from a new book, the reloaded book is the original, hence so is
every later state and observation, whatever operations follow. -/
theorem reload_reachable_indistinguishable (t0 tick : Nat) (trading : Bool) (ht : 0 < tick) (ops : List Op)
    (hv : ∀ op ∈ ops, ValidOp op) (hnf : NoFault (Book.new t0 tick trading) ops) (cont : List Op) (n : Nat) :
    ((Book.new t0 tick trading).run ops).reload = (Book.new t0 tick trading).run ops ∧
    (((Book.new t0 tick trading).run ops).reload.run cont).observe n =
      (((Book.new t0 tick trading).run ops).run cont).observe n := by
  have h := reload_eq (inv_reachable t0 tick trading ht ops hv hnf)
  exact ⟨h, by rw [h]⟩

/-- The snapshot point may be anywhere inside a history: a reload in the middle of a valid
fault-free history is the identity step of the model. -/
theorem reload_step_is_identity (b : Book) (h : Inv b) : (b.step .reload).1 = b := by
  simp only [Book.step]
  split
  · rfl
  · exact reload_eq h

/-- Non-vacuity and a concrete instance of the round trip: a book holding unplaced, active,
partially filled, modified, cancelled, filled and rejected orders, trading off, reloads to exactly
itself (whole model state, both rebuilt indexes included). -/
theorem reload_concrete :
    let b := (Book.new 0 1 true).run [.cap .ask 5 1 (some 10), .time 1, .cap .ask 7 2 (some 10), .time 2,
      .cap .bid 3 3 (some 10), .time 3, .cap .bid 4 4 (some 8), .time 4, .cap .bid 6 5 (some 8),
      .create .bid 2 6 (some 7), .time 5, .cancel 3, .time 6, .modify 4 (some 9) (some 9),
      .trading false, .cap .ask 1 7 none, .time 7, .modify 1 none (some 4)]
    b.reload = b ∧ (b.orders.map (·.order.status)) =
      [.active, .active, .filled, .cancelled, .active, .new, .rejected] := by
  decide

/-- `reload_reachable_indistinguishable` for valid histories as the property states them. -/
theorem reload_indistinguishable_valid (t0 tick : Nat) (trading : Bool) (ops : List Op)
    (h : ValidHistory t0 tick trading ops) (cont : List Op) (n : Nat) :
    ((Book.new t0 tick trading).run ops).reload = (Book.new t0 tick trading).run ops ∧
    (((Book.new t0 tick trading).run ops).reload.run cont).observe n =
      (((Book.new t0 tick trading).run ops).run cont).observe n :=
  reload_reachable_indistinguishable t0 tick trading h.tick_pos ops h.ops_valid h.noFault cont n

end Bourse.Props.C07
