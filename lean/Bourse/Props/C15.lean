/-
C15 — the processing order within a step is a shuffle driven only by the supplied generator.
Property theorems only. The generator (`Xoro`) and `shuffle` are the transcriptions in
`Model/Rng.lean`, validated bit-for-bit against the real crates on every run.
-/
import Bourse.Model.Rng
import Bourse.Model.Env
import Bourse.Lemmas.ShuffleBij
import Bourse.Lemmas.Lemire
import Bourse.Lemmas.ShuffleCount
import Mathlib.Data.List.Permutation
import Mathlib.Data.Nat.Factorial.Basic

namespace Bourse.Props.C15
open Bourse

theorem swap_perm {α} (l : List α) (i j : Nat) : (Xoro.swap l i j).Perm l := by
  unfold Xoro.swap
  split
  · rename_i a b hi hj
    obtain ⟨hi', rfl⟩ := List.getElem?_eq_some_iff.mp hi
    obtain ⟨hj', rfl⟩ := List.getElem?_eq_some_iff.mp hj
    exact List.set_set_perm hi' hj'
  · exact List.Perm.refl _

theorem swap_length {α} (l : List α) (i j : Nat) : (Xoro.swap l i j).length = l.length :=
  (swap_perm l i j).length_eq

theorem swap_map {α β} (f : α → β) (l : List α) (i j : Nat) :
    Xoro.swap (l.map f) i j = (Xoro.swap l i j).map f := by
  unfold Xoro.swap
  simp only [List.getElem?_map]
  cases l[i]? <;> cases l[j]? <;> simp [List.map_set]

theorem shuffleFrom_perm {α} (i : Nat) (l : List α) (g : Xoro) (l' : List α) (g' : Xoro)
    (h : Xoro.shuffleFrom i l g = some (l', g')) : l'.Perm l := by
  induction i generalizing l g with
  | zero => simp [Xoro.shuffleFrom] at h; rw [← h.1]
  | succ i ih =>
    unfold Xoro.shuffleFrom at h
    split at h
    · simp at h
    · exact (ih _ _ h).trans (swap_perm _ _ _)

/-- **Every instruction exactly once.** The shuffled batch is a permutation of the queue:
nothing is lost, duplicated or invented. -/
theorem shuffle_perm {α} (l : List α) (g : Xoro) (l' : List α) (g' : Xoro)
    (h : Xoro.shuffle l g = some (l', g')) : l'.Perm l :=
  shuffleFrom_perm _ l g l' g' h

theorem shuffleFrom_natural {α β} (f : α → β) (i : Nat) (l : List α) (g : Xoro) :
    Xoro.shuffleFrom i (l.map f) g = (Xoro.shuffleFrom i l g).map (fun r => (r.1.map f, r.2)) := by
  induction i generalizing l g with
  | zero => simp [Xoro.shuffleFrom]
  | succ i ih =>
    unfold Xoro.shuffleFrom
    split
    · simp
    · rename_i j g' _
      rw [swap_map, ih]

/-- **The order does not depend on what the instructions are.** Shuffling commutes with any
relabelling of the items: the position permutation is a function of the generator state and the
batch length only — not of the instruction kinds, ids or assets, and (given the queue) not of
anything but the generator. The generator state afterwards is the same too. -/
theorem shuffle_natural {α β} (f : α → β) (l : List α) (g : Xoro) :
    Xoro.shuffle (l.map f) g = (Xoro.shuffle l g).map (fun r => (r.1.map f, r.2)) := by
  simp only [Xoro.shuffle, List.length_map]
  exact shuffleFrom_natural f _ l g

/-- Hence the processed batch is the queue read through the position permutation obtained by
shuffling the indices `0 … n-1` with the same generator state. -/
theorem shuffle_by_positions {α} [Inhabited α] (l : List α) (g : Xoro) :
    Xoro.shuffle l g =
      (Xoro.shuffle (List.range l.length) g).map (fun r => (r.1.map (fun i => l[i]?.getD default), r.2)) := by
  have h := shuffle_natural (fun i => l[i]?.getD default) (List.range l.length) g
  have hl : (List.range l.length).map (fun i => l[i]?.getD default) = l := by
    apply List.ext_getElem
    · simp
    · intro i h1 h2; simp at h1; simp [h1]
  rw [hl] at h
  exact h

/-- **Same generator state, same permutation** (and the environment step draws from nothing
else): `step` is a function of the environment and the generator state. -/
theorem step_deterministic (e : MEnv) (g1 g2 : Xoro) (h : g1 = g2) : e.step g1 = e.step g2 := by
  rw [h]

/-- Non-vacuity and the tie to the real crate: seed 101, batch of 8 — the permutation the real
`slice.shuffle` produces with `Xoroshiro128StarStar::seed_from_u64(101)`. -/
example : (Xoro.shuffle (List.range 8) (Xoro.seed 101)).map (·.1) = some [2, 5, 0, 1, 7, 3, 6, 4] := by
  decide


/-! ### Every order is reachable by exactly one draw vector -/

/-- The real shuffle (any generator state) is the explicit-draw loop on some valid draw vector:
the draw for index `k` is below `k + 1`. -/
theorem shuffle_is_draws {α} (l : List α) (g : Xoro) (l' : List α) (g' : Xoro)
    (h : Xoro.shuffle l g = some (l', g')) :
    ∃ ds ∈ validDraws (l.length - 1), l' = shuffleDraws (l.length - 1) l ds :=
  shuffleFrom_draws _ l g l' g' h

theorem validDraws_count (i : Nat) : (validDraws i).length = (i + 1).factorial := by
  induction i with
  | zero => rfl
  | succ i ih =>
    simp only [validDraws, List.length_flatMap, List.length_map, ih, List.map_const', List.length_range]
    rw [List.sum_replicate_nat, Nat.factorial_succ (i + 1)]

theorem validDraws_nodup (i : Nat) : (validDraws i).Nodup := by
  induction i with
  | zero => simp [validDraws]
  | succ i ih =>
    simp only [validDraws]
    rw [List.nodup_flatMap]
    refine ⟨fun d _ => ih.map (fun a b h => by injection h), ?_⟩
    refine List.Pairwise.imp_of_mem ?_ (List.nodup_range (n := i + 2))
    intro a b _ _ hab
    simp only [Function.onFun, List.disjoint_left, List.mem_map]
    rintro x ⟨r, _, rfl⟩ ⟨r', _, h⟩
    injection h with h1 _
    exact hab h1.symm

/-- **Uniformity of the shuffle reduces to uniformity of the draws.** For a batch without repeated
items (instructions are distinct queue positions), running the shuffle loop over ALL valid draw
vectors produces every permutation of the batch exactly once: the draw vectors (there are `n!` of
them) and the `n!` processing orders are in bijection. So if the generator's bounded draws are
uniform and independent, every processing order has probability exactly `1/n!`. -/
theorem shuffle_outcomes_are_all_permutations_once {α} [DecidableEq α] (l : List α) (hn : l.Nodup) :
    ((validDraws (l.length - 1)).map (shuffleDraws (l.length - 1) l)).Perm l.permutations := by
  cases hl : l with
  | nil => simp [validDraws, shuffleDraws]
  | cons a t =>
    rw [← hl]
    have hlen : l.length - 1 < l.length := by rw [hl]; simp
    have hnod : ((validDraws (l.length - 1)).map (shuffleDraws (l.length - 1) l)).Nodup := by
      refine List.Nodup.map_on ?_ (validDraws_nodup _)
      intro ds hds ds' hds' heq
      exact shuffleDraws_injective _ l hn hlen ds ds' hds hds' heq
    have hsub : (validDraws (l.length - 1)).map (shuffleDraws (l.length - 1) l) ⊆ l.permutations := by
      intro x hx
      obtain ⟨ds, _, rfl⟩ := List.mem_map.mp hx
      exact List.mem_permutations.mpr (shuffleDraws_perm _ _ _)
    apply (List.subperm_of_subset hnod hsub).perm_of_length_le
    rw [List.length_permutations, List.length_map, validDraws_count]
    have : l.length - 1 + 1 = l.length := by rw [hl]; simp
    rw [this]

/-- Concrete reading (kernel evaluation): the 3! = 6 draw vectors for a batch of three give the six
orders, each once. -/
example : ((validDraws 2).map (shuffleDraws 2 [10, 20, 30])) =
    [[20, 30, 10], [30, 20, 10], [30, 10, 20], [10, 30, 20], [20, 10, 30], [10, 20, 30]] := by decide

/-! ### The two marginal readings of "uniform permutation"

Consequences of `shuffle_outcomes_are_all_permutations_once`, by counting over ALL `n!` valid draw
vectors (each has probability `1/n!` under uniform independent bounded draws): -/

/-- **Every instruction is equally likely to be processed at every position**: for every instruction
`x` of a duplicate-free batch of `n` and every position `i < n`, exactly `(n-1)!` of the `n!` draw
vectors process `x` at position `i` — probability `1/n`, whatever `x`, `i`, the submission order or the
instructions are. -/
theorem every_instruction_equally_likely_at_every_position {α : Type} [DecidableEq α] (l : List α) (hn : l.Nodup)
    (x : α) (hx : x ∈ l) (i : Nat) (hi : i < l.length) :
    ((validDraws (l.length - 1)).map (shuffleDraws (l.length - 1) l)).countP (fun p => p[i]? == some x)
      = (l.length - 1).factorial := by
  rw [(shuffle_outcomes_are_all_permutations_once l hn).countP_eq]
  exact ShuffleCount.count_at_position l hn x hx i hi

/-- **Every relative order of two instructions is equally likely**: for two distinct instructions the
draw vectors that process `x` before `y` are exactly as many as those that process `y` before `x`, and
together they are all `n!` — probability `1/2` each. -/
theorem every_relative_order_equally_likely {α : Type} [DecidableEq α] (l : List α) (hn : l.Nodup)
    (x y : α) (hx : x ∈ l) (hy : y ∈ l) (hxy : x ≠ y) :
    let outcomes := (validDraws (l.length - 1)).map (shuffleDraws (l.length - 1) l)
    outcomes.countP (fun p => decide (p.idxOf x < p.idxOf y)) = outcomes.countP (fun p => decide (p.idxOf y < p.idxOf x)) ∧
    outcomes.countP (fun p => decide (p.idxOf x < p.idxOf y)) + outcomes.countP (fun p => decide (p.idxOf y < p.idxOf x))
      = l.length.factorial := by
  intro outcomes
  have hp := shuffle_outcomes_are_all_permutations_once l hn
  have := ShuffleCount.count_before l hn x y hx hy hxy
  simp only [outcomes]
  rw [hp.countP_eq, hp.countP_eq]
  exact this

/-- Concrete reading (kernel evaluation) for a batch of three: each instruction stands at each position
in 2 of the 6 outcomes; `10` precedes `30` in 3 of them. -/
example :
    let outcomes := (validDraws 2).map (shuffleDraws 2 [10, 20, 30])
    ([10, 20, 30].map fun x => (List.range 3).map fun i => outcomes.countP (fun p => p[i]? == some x)) = [[2, 2, 2], [2, 2, 2], [2, 2, 2]] ∧
    outcomes.countP (fun p => decide (p.idxOf 10 < p.idxOf 30)) = 3 := by decide

/-! ### Each bounded draw is exactly uniform

The shuffle draws its swap positions with `gen_index(i + 1)` = `gen_range(0..i+1)` for `u32`:
Lemire's widening-multiply method with the rejection zone `(range << range.leading_zeros()) - 1`
(`Xoro.accept`, transcribed from `rand 0.8.5`, and validated against the real crate on every run by
exact schedule prediction). The rejection makes the result exactly — not approximately — uniform. -/

/-- **No modulo bias.** Of the `2^32` possible `u32` draws, exactly `2^lz` (`lz` = leading zeros of
`range`) are accepted with result `r`, the same number for every `r < range`; a draw never yields a
result outside `0..range`. So a uniform `u32` gives, conditional on acceptance, a uniform position —
which is the hypothesis of `shuffle_outcomes_are_all_permutations_once`. -/
theorem bounded_draw_exactly_uniform (range : Nat) (h0 : 0 < range) (h1 : range < 4294967296) :
    (∀ r, r < range →
      ((Finset.range 4294967296).filter (fun v => Xoro.accept range v = some r)).card = 2 ^ Xoro.lz32 range) ∧
    (∀ v r, v < 4294967296 → Xoro.accept range v = some r → r < range) :=
  ⟨fun r hr => Xoro.accept_count range r h0 h1 hr, fun v r hv h => Xoro.accept_lt range v r h0 h1 hv h⟩

/-- **The rejection loop terminates quickly.** At least `2^31` of the `2^32` draws are accepted, so
each iteration ends the loop with probability ≥ 1/2 (the model's fuel of 256 iterations — reported as
a fault when exhausted — fails with probability ≤ `2^-256` per draw under a uniform generator). -/
theorem bounded_draw_accepts_at_least_half (range : Nat) (h0 : 0 < range) (h1 : range < 4294967296) :
    2147483648 ≤ ((Finset.range 4294967296).filter (fun v => (Xoro.accept range v).isSome)).card := by
  rw [(Xoro.accept_total range h0 h1).1]; exact (Xoro.accept_total range h0 h1).2

/-- `gen_range` returns the result of the first accepted draw of the generator's `u32` stream and
leaves the generator just after it (the loop consumes nothing else). -/
theorem genRange_first_accepted (range fuel : Nat) (g : Xoro) :
    Xoro.genRange range (fuel + 1) g =
      (match Xoro.accept range g.next32.1 with
       | some k => some (k, g.next32.2)
       | none => Xoro.genRange range fuel g.next32.2) := by
  rw [Xoro.genRange]
  rfl

/-- Concrete instances (kernel evaluation): range 3 has 30 leading zeros, zone `3·2^30 − 1`; draws at
the window edges. -/
example : Xoro.lz32 3 = 30 ∧ Xoro.zone 3 = 3221225471 ∧
    Xoro.accept 3 0 = some 0 ∧ Xoro.accept 3 1073741823 = some 0 ∧ Xoro.accept 3 1073741824 = none ∧
    Xoro.accept 3 1431655766 = some 1 ∧ Xoro.accept 3 4294967295 = none := by decide

end Bourse.Props.C15
