/-
C01 — orders execute by strict price-time priority.
Property theorems only. Part 1: the fill rule and the dispatch of the Layer-I model;
part 2 (further down, grows): characterisation of the reference engine `Ref` and refinement.
-/
import Bourse.Model.Ops
import Bourse.Spec.Ref
import Bourse.Lemmas.Frame
import Bourse.Lemmas.ListAux
import Bourse.Lemmas.RefineStep
import Bourse.Lemmas.QueueOrder
import Bourse.Lemmas.NoOverflow
import Bourse.Lemmas.RefGreedy

namespace Bourse.Props.C01
open Bourse

/-- Each fill is at the resting order's price and side, for the smaller of the two remaining
volumes, stamped with the book time, naming aggressor and passive order. -/
theorem fill_rule (t : Nat) (agg pass : Order) :
    let r := Book.matchOrders t agg pass
    r.2.2.1 = { t := t, side := pass.side, price := pass.price, vol := min agg.vol pass.vol,
                active := agg.id, passive := pass.id } ∧
    r.2.2.2 = min agg.vol pass.vol ∧
    r.1.vol = agg.vol - min agg.vol pass.vol ∧ r.2.1.vol = pass.vol - min agg.vol pass.vol := by
  simp only [Book.matchOrders]
  refine ⟨trivial, trivial, ?_, ?_⟩ <;> split <;> rfl

/-- A fill conserves volume: both orders lose exactly the traded volume. -/
theorem fill_conserves (t : Nat) (agg pass : Order) :
    let r := Book.matchOrders t agg pass
    r.1.vol + r.2.2.2 = agg.vol ∧ r.2.1.vol + r.2.2.2 = pass.vol := by
  have h := fill_rule t agg pass
  simp only at h ⊢
  obtain ⟨_, h2, h3, h4⟩ := h
  rw [h2, h3, h4]
  constructor <;> omega

/-- An order is marked Filled (and given its end time) exactly when its volume reaches zero;
otherwise status and end time are untouched. -/
theorem fill_status (t : Nat) (agg pass : Order) :
    let r := Book.matchOrders t agg pass
    (r.1.vol = 0 → r.1.status = .filled ∧ r.1.endt = t) ∧
    (r.1.vol ≠ 0 → r.1.status = agg.status ∧ r.1.endt = agg.endt) ∧
    (r.2.1.vol = 0 → r.2.1.status = .filled ∧ r.2.1.endt = t) ∧
    (r.2.1.vol ≠ 0 → r.2.1.status = pass.status ∧ r.2.1.endt = pass.endt) := by
  simp only [Book.matchOrders]
  refine ⟨?_, ?_, ?_, ?_⟩ <;> split <;> simp_all

/-- The match loop stops as soon as the aggressor is exhausted. -/
theorem loop_stops_exhausted (sd : Side) (fuel : Nat) (b : Book) (e : Entry) (h : e.order.vol = 0) :
    Book.matchLoop sd (fuel + 1) b e = (b, e) := by
  simp [Book.matchLoop, h]

/-- The match loop stops as soon as the best opposite price no longer satisfies the limit. -/
theorem loop_stops_uncrossed (sd : Side) (fuel : Nat) (b : Book) (e : Entry)
    (h : Book.crosses sd e.order.price (bestPrice sd.opp (b.side sd.opp)) = false) :
    Book.matchLoop sd (fuel + 1) b e = (b, e) := by
  simp [Book.matchLoop, h]

/-- While it continues, the loop always trades with the *head* of the opposite priority queue
(best price, earliest stamp): one `fillStep` against exactly that entry. -/
theorem loop_trades_head (sd : Side) (fuel : Nat) (b : Book) (e : Entry) (id : Nat) (m : Entry)
    (hv : e.order.vol > 0)
    (hc : Book.crosses sd e.order.price (bestPrice sd.opp (b.side sd.opp)) = true)
    (hh : (b.side sd.opp).bestOrderIdx = some id) (hm : b.orders[id]? = some m) :
    Book.matchLoop sd (fuel + 1) b e =
      Book.matchLoop sd fuel (Book.fillStep sd b e id m).1 (Book.fillStep sd b e id m).2 := by
  simp [Book.matchLoop, hv, hc, hh, hm]

/-- The crossing test is the limit test of the statement: a bid crosses iff the best ask is at or
below its limit, an ask iff the best bid is at or above its limit. -/
theorem crosses_iff (price best : Nat) :
    (Book.crosses .bid price best = true ↔ best ≤ price) ∧
    (Book.crosses .ask price best = true ↔ price ≤ best) := by
  simp [Book.crosses]

/-- Whatever remains of a market order never rests: after placement its status is Filled,
Cancelled or Rejected, and its own side of the book is exactly what matching left. -/
theorem market_remainder_discarded (sd : Side) (b : Book) (e : Entry) :
    ((Book.placeMarket sd b e).2.order.status = .filled ∨
     (Book.placeMarket sd b e).2.order.status = .cancelled ∨
     (Book.placeMarket sd b e).2.order.status = .rejected) ∧
    (Book.placeMarket sd b e).1.side sd =
      (if b.trading then (Book.matchSide sd b e).1.side sd else b.side sd) := by
  unfold Book.placeMarket
  split
  · unfold Book.cancelRemainder
    split
    · simp
    · rename_i h; simp at h; simp [h]
  · simp

/-- Whatever remains of a limit order rests at its limit price key with the next queue stamp —
a stamp larger than every stamp issued before, hence behind every order already at that price. -/
theorem limit_remainder_rests (sd : Side) (b : Book) (e : Entry)
    (h : (Book.matchIfTrading sd b e).2.order.status ≠ .filled) :
    let r := Book.matchIfTrading sd b e
    (Book.placeLimit sd b e).2.key = ⟨sd, e.key.pk, r.1.stamp⟩ ∧
    (Book.placeLimit sd b e).1.stamp = r.1.stamp + 1 ∧
    (Book.placeLimit sd b e).1.side sd =
      (r.1.side sd).insertOrder e.key.pk r.1.stamp r.2.order.id r.2.order.vol := by
  simp [Book.placeLimit, Book.restUnlessFilled, h, Book.enqueue]
  cases sd <;> rfl

/-- A completely filled limit order does not rest. -/
theorem limit_filled_does_not_rest (sd : Side) (b : Book) (e : Entry)
    (h : (Book.matchIfTrading sd b e).2.order.status = .filled) :
    Book.placeLimit sd b e = Book.matchIfTrading sd b e := by
  simp [Book.placeLimit, Book.restUnlessFilled, h]

/-! ### The reference engine is the price-time rule -/

/-- In the reference engine a newcomer is queued behind every resting order whose price is
better or equal, and ahead of the rest; the relative order of the others is unchanged. -/
theorem ref_enqueue_position (os : List Order) (sd : Side) (q : List Nat) (id price : Nat) :
    ∃ front back, Ref.enqueue os sd q id price = front ++ id :: back ∧ front ++ back = q ∧
      (∀ j ∈ front, Ref.ahead sd (Ref.priceOf os j) price = true) ∧
      (∀ j, back.head? = some j → Ref.ahead sd (Ref.priceOf os j) price = false) := by
  refine ⟨q.takeWhile _, q.dropWhile _, rfl, List.takeWhile_append_dropWhile, ?_, ?_⟩
  · intro j hj
    exact mem_takeWhile_imp (p := fun j => Ref.ahead sd (Ref.priceOf os j) price) hj
  · intro j hj
    have := List.head?_dropWhile_not (fun j => Ref.ahead sd (Ref.priceOf os j) price) q
    rw [hj] at this
    simpa using this

/-- Non-vacuity and a concrete reading of the rule: two asks at one price and a better-priced
one; a buy for 12 takes the better price first, then the earlier of the two, partially. -/
example :
    let b0 := Book.new 0 1 true
    let b1 := (b0.step (.cap .ask 5 1 (some 11))).1
    let b2 := ((b1.step (.time 1)).1.step (.cap .ask 5 2 (some 11))).1
    let b3 := ((b2.step (.time 2)).1.step (.cap .ask 4 3 (some 10))).1
    let b4 := ((b3.step (.time 3)).1.step (.cap .bid 12 4 (some 11))).1
    b4.trades = [{ t := 3, side := .ask, price := 10, vol := 4, active := 3, passive := 2 },
                 { t := 3, side := .ask, price := 11, vol := 5, active := 3, passive := 0 },
                 { t := 3, side := .ask, price := 11, vol := 3, active := 3, passive := 1 }] := by
  decide

/-! ### The implementation is the reference engine, for every operation sequence -/

/-- The reference loop only ever consumes a prefix of the priority queue: whatever is left is a
suffix of the queue it started from (no resting order is skipped or overtaken). -/
theorem ref_match_consumes_prefix (t : Nat) (q : List Nat) (st : Ref.MatchSt) :
    ∃ pre, q = pre ++ (Ref.matchQ t q st).1 := by
  induction q generalizing st with
  | nil => exact ⟨[], rfl⟩
  | cons j q ih =>
    unfold Ref.matchQ
    split
    · exact ⟨[], rfl⟩
    · split
      · simp only
        split
        · obtain ⟨pre, hpre⟩ := ih _
          exact ⟨j :: pre, by rw [List.cons_append, ← hpre]⟩
        · exact ⟨[], rfl⟩
      · exact ⟨[], rfl⟩

/-- **Refinement of states.** After any valid, fault-free history from a new book, forgetting the
implementation's keys, stamps and aggregates leaves exactly the reference engine's state after the
same history: same order records, same two priority queues (as id lists), same trade log, clock,
flag and counter. -/
theorem state_is_reference_state (t0 tick : Nat) (trading : Bool) (ht : 0 < tick) (ops : List Op)
    (hv : ∀ op ∈ ops, ValidOp op) (hnf : NoFault (Book.new t0 tick trading) ops) :
    abs ((Book.new t0 tick trading).run ops) = Ref.run (Ref.init t0 tick trading) ops := by
  rw [← abs_new]
  exact run_refines (inv_new t0 tick trading ht) ops hv hnf

/-- **C01, last sentence.** For every valid, fault-free operation sequence on a new book, the
result of every operation and the complete observation after it (orders, trades, every market-data
view, clock, flag, counter) are exactly those of the straightforward reference matching engine. -/
theorem implementation_is_reference_engine (t0 tick : Nat) (trading : Bool) (ht : 0 < tick) (ops : List Op)
    (hv : ∀ op ∈ ops, ValidOp op) (hnf : NoFault (Book.new t0 tick trading) ops) (n : Nat)
    (hn : ∀ i, i < n → i * tick < P32) :
    Book.trace n (Book.new t0 tick trading) ops = Ref.trace n (Ref.init t0 tick trading) ops := by
  rw [← abs_new]
  exact trace_refines (inv_new t0 tick trading ht) n hn ops hv hnf

/-- **Price priority in every reachable state.** After any valid fault-free history, each side's
queue — the list the match loop consumes from the head — is sorted by price: nearer the head means a
better or equal price (higher for bids, lower for asks). Together with `ref_match_consumes_prefix`
and `ref_enqueue_position` (a newcomer goes behind every order with a better or equal price) this is
"best-priced first, earliest-queued first within a price". -/
theorem queues_sorted_by_price (t0 tick : Nat) (trading : Bool) (ht : 0 < tick) (ops : List Op)
    (hv : ∀ op ∈ ops, ValidOp op) (hnf : NoFault (Book.new t0 tick trading) ops) (sd : Side) :
    let r := Ref.run (Ref.init t0 tick trading) ops
    (r.queue sd).Pairwise (fun i j => Ref.ahead sd (Ref.priceOf r.orders i) (Ref.priceOf r.orders j) = true) := by
  intro r
  have hr : abs ((Book.new t0 tick trading).run ops) = r := state_is_reference_state t0 tick trading ht ops hv hnf
  have := queue_price_sorted (inv_reachable t0 tick trading ht ops hv hnf) sd
  rw [← abs_queue] at this
  rw [← hr]
  exact this

/-- The hypotheses are satisfiable by a history that trades, rests, cancels and re-prices. -/
example :
    let ops : List Op := [.cap .ask 5 1 (some 11), .cap .ask 5 2 (some 11), .cap .bid 7 3 (some 11),
      .cap .bid 4 4 (some 9), .modify 3 (some 11) none, .cancel 1]
    (∀ op ∈ ops, ValidOp op) ∧ NoFault (Book.new 0 1 true) ops ∧
      ((Book.new 0 1 true).run ops).trades.length = 3 := by
  refine ⟨?_, ?_, by decide⟩
  · intro op hop
    simp only [List.mem_cons, List.not_mem_nil, or_false] at hop
    rcases hop with h | h | h | h | h | h <;> subst h <;> simp [ValidOp, MAXP]
  · simp only [NoFault, and_true]
    decide

/-! ### The same, for valid histories as the property states them

`NoFault` (the model's overflow / missing-entry flags stay clear) is not an extra assumption: by
`noFault_iff_feasible` it holds exactly when ids refer to existing orders and the per-side resting
volume and cumulative traded volume stay below `2^32` — the property's own validity conditions. -/

/-! ### The rule in the property's own words: a closed form of what an incoming order executes -/

/-- **C01, first sentence, for every reachable state.** After any valid fault-free history from a new
book, placing a New order `o` while trading is enabled logs exactly these new trade records, in this
order: take ALL resting orders of the opposite side that satisfy `o`'s limit (`adm`, in queue order:
best price first — `queues_sorted_by_price` — earliest queued first within a price —
`ref_enqueue_position`); hand out `o`'s volume greedily over them (`fs`: each gives the smaller of
what is still asked for and what it holds); one trade per hand-out, at the resting order's own
price and side, stamped with the book time, `o` the aggressor. The total executed is
`min (o's volume) (total admissible resting volume)` and `o` keeps the rest. -/
theorem placement_executes_greedily (t0 tick : Nat) (trading : Bool) (ht : 0 < tick) (ops : List Op)
    (hv : ∀ op ∈ ops, ValidOp op) (hnf : NoFault (Book.new t0 tick trading) ops)
    (id : Nat) (e : Entry)
    (he : ((Book.new t0 tick trading).run ops).orders[id]? = some e) (hnew : e.order.status = .new)
    (htr : ((Book.new t0 tick trading).run ops).trading = true)
    (hnf' : (((Book.new t0 tick trading).run ops).placeOrder id).faulted = false) :
    let b := (Book.new t0 tick trading).run ops
    let s := Ref.run (Ref.init t0 tick trading) ops
    let o := e.order
    let adm := (s.queue o.side.opp).filter fun j => Ref.admits o.side o.price (Ref.priceOf s.orders j)
    let fs := Ref.alloc o.vol (adm.map (Ref.volOf s.orders))
    (b.placeOrder id).trades = b.trades ++ (adm.zip fs).map (fun x => Ref.mkTrade b.t (Ref.orderAt s.orders x.1) o.id x.2) ∧
    fs.sum = min o.vol (adm.map (Ref.volOf s.orders)).sum ∧
    ∃ e', (b.placeOrder id).orders[id]? = some e' ∧ e'.order.vol = o.vol - fs.sum := by
  intro b s o adm fs
  have hs : abs ((Book.new t0 tick trading).run ops) = Ref.run (Ref.init t0 tick trading) ops :=
    state_is_reference_state t0 tick trading ht ops hv hnf
  have := place_greedy (inv_reachable t0 tick trading ht ops hv hnf) id e he hnew htr hnf'
  rw [hs] at this
  exact this

/-- **C01, second sentence, for every reachable state**: "Whatever then remains of a limit order rests at its limit
price behind every order already at that price, and whatever remains of a market order is discarded."
With `rem` what the greedy allocation leaves of the placed order `o`: `rem = 0` — Filled, ended at the book
time, own side's queue unchanged; market order with `rem > 0` — Cancelled, ended at the book time, queue unchanged;
limit order with `rem > 0` — Active, and its side's queue is `Ref.enqueue … id o.price`: by `ref_enqueue_position`
that is the old queue with `id` inserted behind every resting order whose price is better or equal and ahead of the
others, nobody else moved. (Queues are read off the implementation model's keyed map in key order: `absq`.) -/
theorem remainder_rests_or_is_discarded (t0 tick : Nat) (trading : Bool) (ht : 0 < tick) (ops : List Op)
    (hv : ∀ op ∈ ops, ValidOp op) (hnf : NoFault (Book.new t0 tick trading) ops)
    (id : Nat) (e : Entry)
    (he : ((Book.new t0 tick trading).run ops).orders[id]? = some e) (hnew : e.order.status = .new)
    (htr : ((Book.new t0 tick trading).run ops).trading = true)
    (hnf' : (((Book.new t0 tick trading).run ops).placeOrder id).faulted = false) :
    let b := (Book.new t0 tick trading).run ops
    let s := Ref.run (Ref.init t0 tick trading) ops
    let o := e.order
    let adm := (s.queue o.side.opp).filter fun j => Ref.admits o.side o.price (Ref.priceOf s.orders j)
    let rem := o.vol - (Ref.alloc o.vol (adm.map (Ref.volOf s.orders))).sum
    ∃ e', (b.placeOrder id).orders[id]? = some e' ∧ e'.order.vol = rem ∧
      (rem = 0 → e'.order.status = .filled ∧ e'.order.endt = b.t ∧ absq ((b.placeOrder id).side o.side) = s.queue o.side) ∧
      (0 < rem → Book.isMarket o = true →
        e'.order.status = .cancelled ∧ e'.order.endt = b.t ∧ absq ((b.placeOrder id).side o.side) = s.queue o.side) ∧
      (0 < rem → Book.isMarket o = false →
        e'.order.status = .active ∧ absq ((b.placeOrder id).side o.side) = Ref.enqueue s.orders o.side (s.queue o.side) id o.price) := by
  intro b s o adm rem
  have hs : abs ((Book.new t0 tick trading).run ops) = Ref.run (Ref.init t0 tick trading) ops :=
    state_is_reference_state t0 tick trading ht ops hv hnf
  have := place_rest (inv_reachable t0 tick trading ht ops hv hnf) id e he hnew htr hnf'
  rw [hs] at this
  exact this

/-- **…"(or re-priced)".** The same closed form for a modification that re-prices an Active order (or raises
its volume): it leaves its queue and executes, as the aggressor with its new limit and volume, the
greedy allocation over every admissible opposite resting order in queue order. -/
theorem repricing_executes_greedily (t0 tick : Nat) (trading : Bool) (ht : 0 < tick) (ops : List Op)
    (hv : ∀ op ∈ ops, ValidOp op) (hnf : NoFault (Book.new t0 tick trading) ops)
    (id : Nat) (e : Entry) (np nv : Option Nat)
    (he : ((Book.new t0 tick trading).run ops).orders[id]? = some e) (hact : e.order.status = .active)
    (hgrid : Book.offGrid ((Book.new t0 tick trading).run ops).tick np = false) (hre : ¬ (np = none ∧ nv = none))
    (hnotred : (np.isNone && decide (nv.getD e.order.vol < e.order.vol)) = false)
    (htr : ((Book.new t0 tick trading).run ops).trading = true) (hpvalid : ∀ p, np = some p → p ≤ MAXP)
    (hnf' : (((Book.new t0 tick trading).run ops).modifyOrder id np nv).faulted = false) :
    let b := (Book.new t0 tick trading).run ops
    let s := Ref.run (Ref.init t0 tick trading) ops
    let o := e.order
    let adm := (s.queue o.side.opp).filter fun j => Ref.admits o.side (np.getD o.price) (Ref.priceOf s.orders j)
    let fs := Ref.alloc (nv.getD o.vol) (adm.map (Ref.volOf s.orders))
    (b.modifyOrder id np nv).trades = b.trades ++ (adm.zip fs).map (fun x => Ref.mkTrade b.t (Ref.orderAt s.orders x.1) o.id x.2) ∧
    fs.sum = min (nv.getD o.vol) (adm.map (Ref.volOf s.orders)).sum := by
  intro b s o adm fs
  have hs : abs ((Book.new t0 tick trading).run ops) = Ref.run (Ref.init t0 tick trading) ops :=
    state_is_reference_state t0 tick trading ht ops hv hnf
  have := modify_greedy (inv_reachable t0 tick trading ht ops hv hnf) id e np nv he hact hgrid hre hnotred htr hpvalid hnf'
  rw [hs] at this
  exact this

/-- The hand-outs themselves: never more than the resting order holds, every resting order before
the last one touched is emptied (so only the last fill can be partial), and together exactly
`min V (Σ volumes)`. -/
theorem greedy_allocation_shape (V : Nat) (vs : List Nat) :
    (Ref.alloc V vs).sum = min V vs.sum ∧ (Ref.alloc V vs).length ≤ vs.length ∧
    (∀ i (h : i < (Ref.alloc V vs).length) (h' : i < vs.length), (Ref.alloc V vs)[i] ≤ vs[i]) ∧
    (∀ i (h : i + 1 < (Ref.alloc V vs).length) (h' : i < vs.length), (Ref.alloc V vs)[i]'(by omega) = vs[i]) :=
  ⟨Ref.alloc_sum V vs, Ref.alloc_length_le V vs, Ref.alloc_le V vs, Ref.alloc_full_before_last V vs⟩

/-- **"…continuing until the incoming order is exhausted or no resting order satisfies its limit."**
When the reference loop returns, the aggressor has no volume left, or the opposite queue is empty,
or the order now at its head does not satisfy the aggressor's limit. -/
theorem ref_match_stops_for_the_stated_reasons (t : Nat) (q : List Nat) (st : Ref.MatchSt)
    (hq : ∀ j ∈ q, j < st.orders.length) :
    (Ref.matchQ t q st).2.agg.vol = 0 ∨ (Ref.matchQ t q st).1 = [] ∨
    ∃ j, (Ref.matchQ t q st).1.head? = some j ∧
      Ref.admits (Ref.matchQ t q st).2.agg.side (Ref.matchQ t q st).2.agg.price
        (Ref.priceOf (Ref.matchQ t q st).2.orders j) = false :=
  Ref.matchQ_stops t q st hq

/-- Non-vacuity, and the closed form evaluated: three asks (4 @ 10, then 5 @ 11 queued before another
5 @ 11); a buy of 12 with limit 11 is admitted by all three, is handed 4, 5 and 3, and the trades are
exactly those. A buy with limit 10 is admitted by one order only. -/
example :
    let ops : List Op := [.cap .ask 5 1 (some 11), .time 1, .cap .ask 5 2 (some 11), .time 2, .cap .ask 4 3 (some 10),
      .time 3, .create .bid 12 4 (some 11), .create .bid 12 4 (some 10)]
    let s := Ref.run (Ref.init 0 1 true) ops
    (∀ op ∈ ops, ValidOp op) ∧ NoFault (Book.new 0 1 true) ops ∧
    ((s.queue .ask).filter fun j => Ref.admits .bid 11 (Ref.priceOf s.orders j)) = [2, 0, 1] ∧
    Ref.alloc 12 [4, 5, 5] = [4, 5, 3] ∧
    (((Book.new 0 1 true).run ops).placeOrder 3).trades =
      [{ t := 3, side := .ask, price := 10, vol := 4, active := 3, passive := 2 },
       { t := 3, side := .ask, price := 11, vol := 5, active := 3, passive := 0 },
       { t := 3, side := .ask, price := 11, vol := 3, active := 3, passive := 1 }] ∧
    ((s.queue .ask).filter fun j => Ref.admits .bid 10 (Ref.priceOf s.orders j)) = [2] ∧
    (((Book.new 0 1 true).run ops).placeOrder 4).trades =
      [{ t := 3, side := .ask, price := 10, vol := 4, active := 4, passive := 2 }] ∧
    -- the bid 12 @ 10 keeps 8 and rests (Active, alone in the bid queue)
    ((((Book.new 0 1 true).run ops).placeOrder 4).orders.map fun e => (e.order.vol, e.order.status))[4]? = some (8, .active) ∧
    absq (((Book.new 0 1 true).run ops).placeOrder 4).bid = [4] ∧
    -- re-pricing the ask 5 @ 11 (id 0) down to 9 with a bid of 12 @ 10 resting: it executes against that bid
    ((((Book.new 0 1 true).run ops).placeOrder 4).modifyOrder 0 (some 9) none).trades.drop 1 =
      [{ t := 3, side := .bid, price := 10, vol := 5, active := 0, passive := 4 }] := by
  refine ⟨?_, ?_, by decide, by decide, by decide, by decide, by decide, by decide, by decide, by decide⟩
  · intro op hop
    simp only [List.mem_cons, List.not_mem_nil, or_false] at hop
    rcases hop with h | h | h | h | h | h | h | h <;> subst h <;> simp [ValidOp, MAXP]
  · simp only [NoFault, and_true]
    decide


/-- **Valid histories never fault, and only they don't.** From a new book with a positive tick, for
operations with volumes ≥ 1 and prices within 32 bits: no overflow, underflow, missing level,
unknown id or exhausted loop ever happens if and only if every id refers to an existing order and
both side totals and the traded-volume counter are below `2^32` after every operation. -/
theorem valid_histories_are_exactly_the_fault_free_ones (t0 tick : Nat) (trading : Bool) (ht : 0 < tick)
    (ops : List Op) (hv : ∀ op ∈ ops, ValidOp op) :
    NoFault (Book.new t0 tick trading) ops ↔ Feasible (Book.new t0 tick trading) ops :=
  noFault_iff_feasible (inv_new t0 tick trading ht) (by simp [Book.new, P32]) ops hv

/-- **C01 for every valid history**: results and complete observations are the reference engine's. -/
theorem implementation_is_reference_engine_valid (t0 tick : Nat) (trading : Bool) (ops : List Op)
    (h : ValidHistory t0 tick trading ops) (n : Nat) (hn : ∀ i, i < n → i * tick < P32) :
    Book.trace n (Book.new t0 tick trading) ops = Ref.trace n (Ref.init t0 tick trading) ops :=
  implementation_is_reference_engine t0 tick trading h.tick_pos ops h.ops_valid h.noFault n hn

theorem queues_sorted_by_price_valid (t0 tick : Nat) (trading : Bool) (ops : List Op)
    (h : ValidHistory t0 tick trading ops) (sd : Side) :
    let r := Ref.run (Ref.init t0 tick trading) ops
    (r.queue sd).Pairwise (fun i j => Ref.ahead sd (Ref.priceOf r.orders i) (Ref.priceOf r.orders j) = true) :=
  queues_sorted_by_price t0 tick trading h.tick_pos ops h.ops_valid h.noFault sd

/-- Non-vacuity: the history of the example above is a valid history (decided by evaluation), and so
is one that fills the side total to `2^32 - 1`; one unit more is not. -/
example :
    ValidHistory 0 1 true [.cap .ask 5 1 (some 11), .cap .ask 5 2 (some 11), .cap .bid 7 3 (some 11),
      .cap .bid 4 4 (some 9), .modify 3 (some 11) none, .cancel 1] ∧
    Feasible (Book.new 0 1 true) [.cap .ask 4294967290 1 (some 11), .cap .ask 5 2 (some 12)] ∧
    ¬ Feasible (Book.new 0 1 true) [.cap .ask 4294967290 1 (some 11), .cap .ask 6 2 (some 12)] ∧
    ¬ Feasible (Book.new 0 1 true) [.cancel 0] := by
  refine ⟨⟨by decide, ?_, by decide⟩, by decide, by decide, by decide⟩
  intro op hop
  simp only [List.mem_cons, List.not_mem_nil, or_false] at hop
  rcases hop with h | h | h | h | h | h <;> subst h <;> simp [ValidOp, MAXP]

end Bourse.Props.C01
