/-
C05 — equal timestamps never lose or reorder queued orders.
Property theorems only.

On the repaired tree the queue key is `(price key, stamp)` where `stamp` comes from a per-book
counter, not from the clock; the clock takes no part in ordering. (On the pinned tree the key was
`(price key, time)` and a second insertion with the same pair overwrote the first: see
known_findings.json F-C05-1 and the witness below, which is the former counterexample.)
-/
import Bourse.Model.Ops
import Bourse.Lemmas.MatchFrame
import Bourse.Lemmas.Reach
import Bourse.Lemmas.RefineStep
import Bourse.Lemmas.NoOverflow
import Bourse.Lemmas.StampShift

namespace Bourse.Props.C05
open Bourse

/-- Queuing takes the current stamp and advances the counter: the key an order is queued under
does not depend on the clock at all. -/
theorem enqueue_key_clock_free (sd : Side) (b : Book) (e : Entry) (pk t : Nat) :
    (Book.enqueue sd b e pk).2.key = ⟨sd, pk, b.stamp⟩ ∧
    (Book.enqueue sd b e pk).1.stamp = b.stamp + 1 ∧
    (Book.enqueue sd (b.setTime t) e pk).2.key = (Book.enqueue sd b e pk).2.key ∧
    (Book.enqueue sd (b.setTime t) e pk).1.side sd = (Book.enqueue sd b e pk).1.side sd := by
  simp [Book.enqueue, Book.setTime]
  cases sd <;> rfl

/-- Changing the clock never touches the stamp counter or either queue. -/
theorem setTime_keeps_queues (b : Book) (t : Nat) :
    (b.setTime t).stamp = b.stamp ∧ (b.setTime t).bid = b.bid ∧ (b.setTime t).ask = b.ask := ⟨rfl, rfl, rfl⟩

/-- Two successive insertions on one side get different keys, whatever the clock does in
between (also when it does nothing): the second stamp is strictly larger. -/
theorem successive_keys_distinct (sd : Side) (b : Book) (e1 e2 : Entry) (pk1 pk2 : Nat) :
    let r1 := Book.enqueue sd b e1 pk1
    let r2 := Book.enqueue sd r1.1 e2 pk2
    r1.2.key.st < r2.2.key.st := by
  simp [Book.enqueue]

/-- The stamp counter never decreases, through any operation (so a stamp, once issued, is
never issued again). -/
theorem stamp_monotone (b : Book) (op : Op) (h : op ≠ .reload) : b.stamp ≤ (b.step op).1.stamp := by
  have hrest : ∀ sd (r : Book × Entry) pk, r.1.stamp ≤ (Book.restUnlessFilled sd r pk).1.stamp := by
    intro sd r pk; unfold Book.restUnlessFilled; split <;> simp [Book.enqueue]
  have hplaceE : ∀ (b : Book) (e : Entry), b.stamp ≤ (b.placeEntry e).1.stamp := by
    intro b e
    unfold Book.placeEntry
    split
    · unfold Book.placeMarket
      split
      · unfold Book.cancelRemainder Book.matchSide
        split <;> simp [(Book.matchLoop_frame _ _ _ _).2.2.2.1]
      · simp
    · unfold Book.placeLimit
      have := hrest e.order.side (Book.matchIfTrading e.order.side b e) e.key.pk
      rw [(Book.matchIfTrading_frame _ _ _).2.2.2.1] at this
      exact this
  have hplace : ∀ (b : Book) id, b.stamp ≤ (b.placeOrder id).stamp := by
    intro b id
    unfold Book.placeOrder
    split
    · simp
    · split
      · simp
      · simpa [Book.writeBack] using hplaceE b _
  have hcancel : ∀ (b : Book) id, b.stamp ≤ (b.cancelOrder id).stamp := by
    intro b id; unfold Book.cancelOrder; split <;> (try split) <;> simp
  have hrep : ∀ (b : Book) (e : Entry) np nv, b.stamp ≤ (b.replaceOrder e np nv).1.stamp := by
    intro b e np nv
    unfold Book.replaceOrder
    have := hrest e.key.side (Book.matchIfTrading e.key.side (b.dequeue e)
      { e with order := { e.order with vol := nv, price := np } }) (priceKey e.key.side np)
    rw [(Book.matchIfTrading_frame _ _ _).2.2.2.1] at this
    simpa using this
  have hmod : ∀ (b : Book) id p v, b.stamp ≤ (b.modifyOrder id p v).stamp := by
    intro b id p v
    unfold Book.modifyOrder
    split
    · simp
    · split
      · simp
      · split
        · simp only [Book.writeBack]
          unfold Book.modifyEntry
          split
          · simp
          · split
            · simp [Book.reduceOrderVol]
            · exact hrep _ _ _ _
          · exact hrep _ _ _ _
          · exact hrep _ _ _ _
        · simp
  have hcreate : ∀ (b : Book) sd vol tr p, (b.createOrder sd vol tr p).1.stamp = b.stamp := by
    intro b sd vol tr p; unfold Book.createOrder; split <;> (try split) <;> rfl
  cases op with
  | create sd vol tr p => simp [Book.step, hcreate]
  | place id => exact hplace b id
  | cap sd vol tr p =>
    simp only [Book.step, Book.createAndPlace]
    split
    · have := hplace (b.createOrder sd vol tr p).1 ‹_›
      rw [hcreate] at this; exact this
    · simp [hcreate]
  | cancel id => exact hcancel b id
  | modify id p v => exact hmod b id p v
  | ev e =>
    cases e with
    | new id => exact hplace b id
    | cancel id => exact hcancel b id
    | modify id p v => exact hmod b id p v
  | time t => simp [Book.step, Book.setTime]
  | trading on => cases on <;> simp [Book.step, Book.enableTrading, Book.disableTrading]
  | resetVol => simp [Book.step, Book.resetTradeVol]
  | reload => exact absurd rfl h

/-- A snapshot reload keeps the counter above every stamp stored in the table, so ties keep
distinct keys after a reload as well. -/
theorem reload_stamp_above (b : Book) : b.stamp ≤ b.reload.stamp := by
  have : ∀ (l : List Entry) (acc : SideS × SideS × Nat), acc.2.2 ≤ (l.foldl Book.loadStep acc).2.2 := by
    intro l
    induction l with
    | nil => intro acc; simp
    | cons e l ih =>
      intro acc
      refine Nat.le_trans ?_ (ih _)
      unfold Book.loadStep
      split
      · split <;> exact Nat.le_max_left _ _
      · exact Nat.le_refl _
  exact this b.orders (SideS.empty, SideS.empty, b.stamp)

/-- **Ties never lose an order**: the invariant theorem has no clock hypothesis at all — after ANY
valid fault-free history (clock advanced or not between insertions, arbitrary `time` operations,
reloads in between) every Active order is queued exactly once under a key of its own, the queue keys
are pairwise distinct (strictly sorted), and the published aggregates count every one of them. -/
theorem ties_lose_nothing (t0 tick : Nat) (trading : Bool) (ht : 0 < tick) (ops : List Op)
    (hv : ∀ op ∈ ops, ValidOp op) (hnf : NoFault (Book.new t0 tick trading) ops) :
    let b := (Book.new t0 tick trading).run ops
    (∀ (id : Nat) (e : Entry), b.orders[id]? = some e → e.order.status = .active →
        ((e.key.pk, e.key.st), id) ∈ (b.side e.order.side).orders) ∧
    SMap.Sorted b.bid.orders ∧ SMap.Sorted b.ask.orders ∧
    (∀ sd k k' id, (k, id) ∈ (b.side sd).orders → (k', id) ∈ (b.side sd).orders → k = k') := by
  intro b
  have h := inv_reachable t0 tick trading ht ops hv hnf
  exact ⟨h.act, h.bid.so, h.ask.so, fun sd k k' id h1 h2 => (h.side sd).unique h1 h2⟩

/-- The former counterexample, now a theorem: two asks queued at one price with ONE timestamp and
a market buy for 12 — both trade, the earlier-queued first; nothing is lost or invisible; the
earlier one can then be neither lost by a cancel of the other. -/
theorem tie_witness_executes_in_queue_order :
    let b := (Book.new 0 1 true).run [.cap .ask 5 1 (some 10), .cap .ask 7 2 (some 10)]
    let b' := b.run [.cap .bid 12 3 none]
    b.bidAsk = (0, 10) ∧ b.askVol = 12 ∧ b.askBestVolAndOrders = (12, 2) ∧
    b'.trades = [{ t := 0, side := .ask, price := 10, vol := 5, active := 2, passive := 0 },
                 { t := 0, side := .ask, price := 10, vol := 7, active := 2, passive := 1 }] ∧
    (b'.orders.map (·.order.status)) = [.filled, .filled, .filled] ∧
    ((b.run [.cancel 1]).askBestVolAndOrders = (5, 1)) ∧
    ((b.run [.cancel 1, .cap .bid 12 3 none]).trades.map (·.passive)) = [0] := by
  decide

/-- Ties created by re-queuing modifications: a tie-break by order id would be wrong here — order 0
re-queued after order 1 (same clock value) must execute after it. -/
theorem tie_requeue_goes_behind :
    let b := (Book.new 0 1 true).run [.cap .ask 5 1 (some 10), .cap .ask 5 2 (some 10),
      .modify 0 none (some 5), .cap .bid 7 3 none]
    (b.trades.map (fun t => (t.passive, t.vol))) = [(1, 5), (0, 2)] := by
  decide

/-- **Execution order under ties is queueing order.** For every valid fault-free history — whatever
the clock did — the ids in each side's keyed queue, read in key order, are exactly the reference
engine's FIFO list for that side. The reference engine never looks at a clock value to order its
list (`Ref.enqueue` walks the list comparing prices only), so equal timestamps cannot reorder,
merge or drop anything. -/
theorem queues_are_reference_fifo (t0 tick : Nat) (trading : Bool) (ht : 0 < tick) (ops : List Op)
    (hv : ∀ op ∈ ops, ValidOp op) (hnf : NoFault (Book.new t0 tick trading) ops) (sd : Side) :
    absq (((Book.new t0 tick trading).run ops).side sd) = (Ref.run (Ref.init t0 tick trading) ops).queue sd := by
  rw [← abs_queue, ← abs_new]
  exact congrArg (fun s => s.queue sd) (run_refines (inv_new t0 tick trading ht) ops hv hnf)

/-- `queues_are_reference_fifo` and `ties_lose_nothing` for valid histories as the property states
them — there is no clock hypothesis in `ValidHistory` either. -/
theorem queues_are_reference_fifo_valid (t0 tick : Nat) (trading : Bool) (ops : List Op)
    (h : ValidHistory t0 tick trading ops) (sd : Side) :
    absq (((Book.new t0 tick trading).run ops).side sd) = (Ref.run (Ref.init t0 tick trading) ops).queue sd :=
  queues_are_reference_fifo t0 tick trading h.tick_pos ops h.ops_valid h.noFault sd

theorem ties_lose_nothing_valid (t0 tick : Nat) (trading : Bool) (ops : List Op)
    (h : ValidHistory t0 tick trading ops) :
    let b := (Book.new t0 tick trading).run ops
    (∀ (id : Nat) (e : Entry), b.orders[id]? = some e → e.order.status = .active →
        ((e.key.pk, e.key.st), id) ∈ (b.side e.order.side).orders) ∧
    SMap.Sorted b.bid.orders ∧ SMap.Sorted b.ask.orders ∧
    (∀ sd k k' id, (k, id) ∈ (b.side sd).orders → (k', id) ∈ (b.side sd).orders → k = k') :=
  ties_lose_nothing t0 tick trading h.tick_pos ops h.ops_valid h.noFault

/-! ### The size of the stamps does not matter, only their order

The stamp counter is a `u64` that only grows; a state whose counter is near `2^32` — where an
implementation that packs, truncates or narrows stamps would go wrong — takes billions of queue
insertions to reach. The correspondence check reaches it with the harness operation `jump k`: the
book goes through its snapshot with `k` added to the counter and to every stored stamp. The
theorems below say what that operation is in the model and that it is invisible. -/

/-- In every reachable state the shifted book again satisfies the book invariant, is abstracted to
the same reference-engine state, and is what loading the shifted snapshot (`jump k`) produces. -/
theorem stamp_jump_is_a_valid_state (t0 tick : Nat) (trading : Bool) (ht : 0 < tick) (ops : List Op)
    (hv : ∀ op ∈ ops, ValidOp op) (hnf : NoFault (Book.new t0 tick trading) ops) (k : Nat) :
    let b := (Book.new t0 tick trading).run ops
    Inv (b.shift k) ∧ abs (b.shift k) = abs b ∧ b.reloadShift k = b.shift k := by
  have hi := inv_run (inv_new t0 tick trading ht) ops hv hnf
  exact ⟨hi.shift k, abs_shift _ k, reloadShift_eq hi k⟩

/-- **A stamp jump is invisible, now and under every continuation**: after any valid history, moving
every stamp up by any `k` changes no observable, and every valid fault-free continuation produces
the same results and the same complete observations (orders, trades, every view) from the shifted
book as from the original. So whatever an implementation does differently after a `jump` is a
failure of price-time priority, not an artefact of the jump. -/
theorem stamp_offset_is_invisible (t0 tick : Nat) (trading : Bool) (ht : 0 < tick) (ops : List Op)
    (hv : ∀ op ∈ ops, ValidOp op) (hnf : NoFault (Book.new t0 tick trading) ops) (k n : Nat)
    (hn : ∀ i, i < n → i * tick < P32) (cont : List Op) (hvc : ∀ op ∈ cont, ValidOp op)
    (hc : NoFault ((Book.new t0 tick trading).run ops) cont)
    (hc' : NoFault (((Book.new t0 tick trading).run ops).shift k) cont) :
    let b := (Book.new t0 tick trading).run ops
    (b.shift k).observe n = b.observe n ∧ Book.trace n (b.shift k) cont = Book.trace n b cont := by
  have hi := inv_run (inv_new t0 tick trading ht) ops hv hnf
  have htk : ((Book.new t0 tick trading).run ops).tick = tick := by
    rw [run_tick]; rfl
  exact shift_silent hi k n (by rw [htk]; exact hn) cont hvc hc hc'

/-- Non-vacuity: two asks tied at one price, a jump of `2^32 − 1` (the next stamp is `2^32`), a third
ask at that price and a sweeping market buy: the three execute in queueing order, exactly as without
the jump; the stored stamps straddle `2^32`. -/
example :
    let b0 := (Book.new 0 1 true).run [.cap .ask 5 1 (some 10), .cap .ask 5 2 (some 10)]
    let b1 := (b0.reloadShift 4294967295).run [.cap .ask 5 3 (some 10), .cap .bid 15 4 none]
    let b2 := b0.run [.cap .ask 5 3 (some 10), .cap .bid 15 4 none]
    b1.trades.map (·.passive) = [0, 1, 2] ∧ b1.trades = b2.trades ∧
    b1.orders.map (·.order) = b2.orders.map (·.order) ∧
    b1.orders.map (·.key.st) = [4294967295, 4294967296, 4294967297, 0] := by decide +kernel

end Bourse.Props.C05
