/-
C10 — queued instructions are invisible until the next step.
Property theorems only.
-/
import Bourse.Model.Env
import Bourse.Lemmas.EnvInv

namespace Bourse.Props.C10
open Bourse

/-- Every market-data view of a book is a function of its two side structures (and the tick
size) only — never of the order table. -/
theorem views_depend_on_sides (b b' : Book) (n : Nat) (hb : b'.bid = b.bid) (ha : b'.ask = b.ask)
    (ht : b'.tick = b.tick) :
    b'.bidAsk = b.bidAsk ∧ b'.bidVol = b.bidVol ∧ b'.askVol = b.askVol ∧
    b'.bidBestVolAndOrders = b.bidBestVolAndOrders ∧ b'.askBestVolAndOrders = b.askBestVolAndOrders ∧
    b'.bidLevels n = b.bidLevels n ∧ b'.askLevels n = b.askLevels n ∧
    b'.level1 = b.level1 ∧ b'.level2 n = b.level2 n ∧ b'.mid2 = b.mid2 := by
  simp [Book.bidAsk, Book.bidVol, Book.askVol, Book.bidBestVolAndOrders, Book.askBestVolAndOrders,
    Book.bidLevels, Book.askLevels, Book.level1, Book.level2, Book.mid2, hb, ha, ht]

/-- Creating an order touches nothing but the order table, which gains exactly one order with
status New (or nothing at all when the price is rejected). -/
theorem create_only_appends (b : Book) (sd : Side) (vol tr : Nat) (p : Option Nat) :
    let b' := (b.createOrder sd vol tr p).1
    b'.bid = b.bid ∧ b'.ask = b.ask ∧ b'.tick = b.tick ∧ b'.t = b.t ∧ b'.trades = b.trades ∧
    b'.tradeVol = b.tradeVol ∧ b'.trading = b.trading ∧ b'.stamp = b.stamp ∧
    (b'.orders = b.orders ∨
      ∃ e : Entry, b'.orders = b.orders ++ [e] ∧ e.order.status = .new ∧ e.order.id = b.orders.length ∧
        e.order.vol = vol ∧ e.order.side = sd ∧ e.order.trader = tr) := by
  unfold Book.createOrder
  split
  · split
    · simp
    · refine ⟨rfl, rfl, rfl, rfl, rfl, rfl, rfl, rfl, Or.inr ⟨_, rfl, ?_⟩⟩
      simp [Book.mkOrder]
  · refine ⟨rfl, rfl, rfl, rfl, rfl, rfl, rfl, rfl, Or.inr ⟨_, rfl, ?_⟩⟩
    simp [Book.mkOrder]

/-- **Submitting a new order is invisible**: in the environment only the addressed book's order
table (one more New order) and the instruction queue change; the cached level-2 data, every
recorded series, the per-step traded volumes and every other book are literally unchanged, and
the addressed book's level-2 data is unchanged. -/
theorem env_place_invisible (e : MEnv) (a : Nat) (sd : Side) (vol tr : Nat) (p : Option Nat) :
    let e' := (e.placeOrder a sd vol tr p).1
    e'.l2 = e.l2 ∧ e'.records = e.records ∧ e'.tradeVols = e.tradeVols ∧ e'.stepSize = e.stepSize ∧
    e'.market.level2 e.nLevels = e.market.level2 e.nLevels ∧
    (∀ a', a' ≠ a → e'.market.books[a']? = e.market.books[a']?) := by
  have hm : ∀ (m : Market), (m.createOrder a sd vol tr p).1.level2 e.nLevels = m.level2 e.nLevels ∧
      ∀ a', a' ≠ a → (m.createOrder a sd vol tr p).1.books[a']? = m.books[a']? := by
    intro m
    simp only [Market.createOrder, Market.stepOn]
    split
    · rename_i b hb
      obtain ⟨hlt, rfl⟩ := List.getElem?_eq_some_iff.mp hb
      constructor
      · simp only [Market.level2, Book.step]
        apply List.ext_getElem
        · simp
        · intro i h1 h2
          simp only [List.getElem_map, List.getElem_set]
          split
          · rename_i hia; subst hia
            have hc := create_only_appends m.books[a] sd vol tr p
            exact (views_depend_on_sides _ _ _ hc.1 hc.2.1 hc.2.2.1).2.2.2.2.2.2.2.2.1
          · rfl
      · intro a' hne; simp [Ne.symm hne]
    · exact ⟨rfl, fun _ _ => rfl⟩
  simp only [MEnv.placeOrder]
  split <;> exact ⟨rfl, rfl, rfl, rfl, (hm e.market).1, (hm e.market).2⟩

/-- **Queued cancellations and modifications are invisible**: nothing but the queue changes. -/
theorem env_cancel_modify_invisible (e : MEnv) (a id : Nat) (p v : Option Nat) :
    e.cancelOrder a id = { e with queue := e.queue ++ [(a, .cancel id)] } ∧
    e.modifyOrder a id p v = { e with queue := e.queue ++ [(a, .modify id p v)] } := ⟨rfl, rfl⟩

/-- The snapshot handed to agents equals the live books' level-2 data. -/
def CacheOk (e : MEnv) : Prop := e.l2 = e.market.level2 e.nLevels

theorem cache_init (t0 : Nat) (ticks : List Nat) (step : Nat) (trading : Bool) (n : Nat) :
    CacheOk (MEnv.new t0 ticks step trading n) := rfl

theorem toggle_level2 (m : Market) (n : Nat) :
    m.enableTrading.level2 n = m.level2 n ∧ m.disableTrading.level2 n = m.level2 n := by
  simp [Market.enableTrading, Market.disableTrading, Market.level2, Book.enableTrading, Book.disableTrading,
    Book.level2, Book.bidAsk, Book.bidVol, Book.askVol, Book.bidLevels, Book.askLevels]

/-- **The cached snapshot is always the live level-2 data as of the end of the most recent step
(or of construction)**: it is set from the live books at the end of every step and no operation
between steps changes either the cache or the live level-2 data. -/
theorem cache_inv (e : MEnv) (g : Xoro) (op : MEnv.EOp) (h : CacheOk e) (hf : (e.apply g op).1.1.fault = false) :
    CacheOk (e.apply g op).1.1 := by
  unfold CacheOk at h ⊢
  cases op with
  | submit a sd vol tr p =>
    have := env_place_invisible e a sd vol tr p
    simp only [MEnv.apply]
    have hn : (e.placeOrder a sd vol tr p).1.nLevels = e.nLevels := by
      simp only [MEnv.placeOrder]; split <;> rfl
    rw [hn, this.1, this.2.2.2.2.1, h]
  | qcancel a id => exact h
  | qmodify a id p v => exact h
  | step =>
    simp only [MEnv.apply, MEnv.step] at hf ⊢
    split
    · rfl
    · rename_i hs; simp [hs] at hf
  | trading on =>
    cases on
    · simp only [MEnv.apply, MEnv.disableTrading]; rw [(toggle_level2 _ _).2]; exact h
    · simp only [MEnv.apply, MEnv.enableTrading]; rw [(toggle_level2 _ _).1]; exact h

/-! ### Whole interleavings: any number of submissions between two steps -/

/-- `b'` is `b` with some orders of status New appended to its table and nothing else changed. -/
def BookExt (b b' : Book) : Prop :=
  b'.bid = b.bid ∧ b'.ask = b.ask ∧ b'.tick = b.tick ∧ b'.t = b.t ∧ b'.trades = b.trades ∧
  b'.tradeVol = b.tradeVol ∧ b'.trading = b.trading ∧ b'.stamp = b.stamp ∧
  ∃ news : List Entry, b'.orders = b.orders ++ news ∧ ∀ x ∈ news, x.order.status = .new

theorem BookExt.refl (b : Book) : BookExt b b :=
  ⟨rfl, rfl, rfl, rfl, rfl, rfl, rfl, rfl, [], by simp, by simp⟩

theorem BookExt.trans {a b c : Book} (h1 : BookExt a b) (h2 : BookExt b c) : BookExt a c := by
  obtain ⟨a1, a2, a3, a4, a5, a6, a7, a8, n1, e1, s1⟩ := h1
  obtain ⟨b1, b2, b3, b4, b5, b6, b7, b8, n2, e2, s2⟩ := h2
  refine ⟨b1.trans a1, b2.trans a2, b3.trans a3, b4.trans a4, b5.trans a5, b6.trans a6, b7.trans a7, b8.trans a8,
    n1 ++ n2, by rw [e2, e1, List.append_assoc], ?_⟩
  intro x hx
  rcases List.mem_append.mp hx with h | h
  · exact s1 x h
  · exact s2 x h

theorem BookExt.of_create (b : Book) (sd : Side) (vol tr : Nat) (p : Option Nat) :
    BookExt b (b.createOrder sd vol tr p).1 := by
  obtain ⟨h1, h2, h3, h4, h5, h6, h7, h8, h9⟩ := create_only_appends b sd vol tr p
  refine ⟨h1, h2, h3, h4, h5, h6, h7, h8, ?_⟩
  rcases h9 with h | ⟨e, he, hs, _⟩
  · exact ⟨[], by simp [h], by simp⟩
  · exact ⟨[e], he, by simpa using hs⟩

/-- Every book of `m'` extends the book of `m` with the same index. -/
def MarketExt (m m' : Market) : Prop :=
  m'.books.length = m.books.length ∧
  ∀ (a : Nat) (b : Book), m.books[a]? = some b → ∃ b', m'.books[a]? = some b' ∧ BookExt b b'

theorem MarketExt.refl (m : Market) : MarketExt m m := ⟨rfl, fun _ b h => ⟨b, h, BookExt.refl b⟩⟩

theorem MarketExt.trans {a b c : Market} (h1 : MarketExt a b) (h2 : MarketExt b c) : MarketExt a c := by
  refine ⟨h2.1.trans h1.1, ?_⟩
  intro i x hx
  obtain ⟨y, hy, e1⟩ := h1.2 i x hx
  obtain ⟨z, hz, e2⟩ := h2.2 i y hy
  exact ⟨z, hz, e1.trans e2⟩

theorem MarketExt.of_create (m : Market) (a : Nat) (sd : Side) (vol tr : Nat) (p : Option Nat) :
    MarketExt m (m.createOrder a sd vol tr p).1 := by
  simp only [Market.createOrder, Market.stepOn]
  split
  · rename_i b hb
    refine ⟨by simp, ?_⟩
    intro i x hx
    by_cases hia : i = a
    · subst hia
      rw [hb] at hx; injection hx with hx; subst hx
      have hlt := (List.getElem?_eq_some_iff.mp hb).1
      exact ⟨(b.step (.create sd vol tr p)).1, by simp [hlt], BookExt.of_create b sd vol tr p⟩
    · exact ⟨x, by simp [List.getElem?_set, Ne.symm hia, hx], BookExt.refl x⟩
  · exact MarketExt.refl m

/-- Submissions: new orders, queued cancellations, queued modifications (no step, no switch). -/
def IsSubmission : MEnv.EOp → Prop
  | .submit .. | .qcancel .. | .qmodify .. => True
  | _ => False

/-- **Between steps, any sequence of submissions changes nothing observable except that each newly
created order appears in its asset's order list with status New.** After ANY number of `place_order` /
`cancel_order` / `modify_order` calls on an environment (instructions that would trade, cancel or
re-price at once if applied directly included): the cached level-2 snapshot, every recorded series,
the per-step traded volumes and the generator are literally unchanged; every book has the same two
sides (hence every market-data view, `views_depend_on_sides`), clock, trade log, traded-volume counter,
trading flag and stamp counter as before, and its order table is the old one followed by New orders. -/
theorem submissions_invisible (s : MEnv × Xoro) (ops : List MEnv.EOp) (hs : ∀ op ∈ ops, IsSubmission op) :
    let s' := MEnv.runOps s ops
    s'.2 = s.2 ∧ s'.1.l2 = s.1.l2 ∧ s'.1.records = s.1.records ∧ s'.1.tradeVols = s.1.tradeVols ∧
    s'.1.stepSize = s.1.stepSize ∧ s'.1.nLevels = s.1.nLevels ∧ MarketExt s.1.market s'.1.market := by
  induction ops generalizing s with
  | nil => exact ⟨rfl, rfl, rfl, rfl, rfl, rfl, MarketExt.refl _⟩
  | cons op rest ih =>
    simp only [MEnv.runOps]
    have hrest := ih (s.1.apply s.2 op).1 (fun o ho => hs o (List.mem_cons_of_mem _ ho))
    have hop : (s.1.apply s.2 op).1.2 = s.2 ∧ (s.1.apply s.2 op).1.1.l2 = s.1.l2 ∧
        (s.1.apply s.2 op).1.1.records = s.1.records ∧ (s.1.apply s.2 op).1.1.tradeVols = s.1.tradeVols ∧
        (s.1.apply s.2 op).1.1.stepSize = s.1.stepSize ∧ (s.1.apply s.2 op).1.1.nLevels = s.1.nLevels ∧
        MarketExt s.1.market (s.1.apply s.2 op).1.1.market := by
      have := hs op List.mem_cons_self
      cases op with
      | submit a sd vol tr p =>
        have hm := MarketExt.of_create s.1.market a sd vol tr p
        simp only [MEnv.apply, MEnv.placeOrder]
        split <;> refine ⟨?_, ?_, ?_, ?_, ?_, ?_, ?_⟩ <;> first | rfl | trivial | exact hm
      | qcancel a id => exact ⟨rfl, rfl, rfl, rfl, rfl, rfl, MarketExt.refl _⟩
      | qmodify a id p v => exact ⟨rfl, rfl, rfl, rfl, rfl, rfl, MarketExt.refl _⟩
      | step => exact absurd this (by simp [IsSubmission])
      | trading on => exact absurd this (by simp [IsSubmission])
    obtain ⟨r1, r2, r3, r4, r5, r6, r7⟩ := hrest
    obtain ⟨o1, o2, o3, o4, o5, o6, o7⟩ := hop
    exact ⟨r1.trans o1, r2.trans o2, r3.trans o3, r4.trans o4, r5.trans o5, r6.trans o6, o7.trans r7⟩

/-- … so every published view of every book is what it was before the submissions. -/
theorem submissions_keep_every_view (s : MEnv × Xoro) (ops : List MEnv.EOp) (hs : ∀ op ∈ ops, IsSubmission op)
    (a : Nat) (b : Book) (hb : s.1.market.books[a]? = some b) (n : Nat) :
    ∃ b', (MEnv.runOps s ops).1.market.books[a]? = some b' ∧
      b'.bidAsk = b.bidAsk ∧ b'.bidVol = b.bidVol ∧ b'.askVol = b.askVol ∧
      b'.bidLevels n = b.bidLevels n ∧ b'.askLevels n = b.askLevels n ∧
      b'.level1 = b.level1 ∧ b'.level2 n = b.level2 n ∧ b'.mid2 = b.mid2 ∧
      b'.trades = b.trades ∧ b'.t = b.t ∧ b'.tradeVol = b.tradeVol := by
  obtain ⟨_, _, _, _, _, _, hm⟩ := submissions_invisible s ops hs
  obtain ⟨b', hb', e1, e2, e3, e4, e5, e6, _, _, _⟩ := hm.2 a b hb
  have hv := views_depend_on_sides b b' n e1 e2 e3
  exact ⟨b', hb', hv.1, hv.2.1, hv.2.2.1, hv.2.2.2.2.2.1, hv.2.2.2.2.2.2.1, hv.2.2.2.2.2.2.2.1,
    hv.2.2.2.2.2.2.2.2.1, hv.2.2.2.2.2.2.2.2.2, e5, e4, e6⟩

/-- **The snapshot handed to agents is the live level-2 data as of the end of the most recent step,
along every history**: `CacheOk` holds in every state an environment reaches by submissions, queued
instructions, switches and steps. -/
theorem cache_always_live (s : MEnv × Xoro) (h : CacheOk s.1) (ops : List MEnv.EOp)
    (hnf : ∀ k, k ≤ ops.length → (MEnv.runOps s (ops.take k)).1.fault = false) :
    CacheOk (MEnv.runOps s ops).1 := by
  induction ops generalizing s with
  | nil => exact h
  | cons op rest ih =>
    simp only [MEnv.runOps]
    have h1 : (s.1.apply s.2 op).1.1.fault = false := by
      have := hnf 1 (by simp)
      simpa [MEnv.runOps] using this
    apply ih _ (cache_inv s.1 s.2 op h h1)
    intro k hk
    have := hnf (k + 1) (by simp; omega)
    simpa [MEnv.runOps] using this

/-- Non-vacuity: instructions that would trade / cancel / re-price immediately if applied directly
leave the published data untouched until the step. -/
example :
    let e0 := ((MEnv.new 0 [1] 10 true 2).placeOrder 0 .ask 5 1 (some 10)).1
    let e1 := (e0.step (Xoro.seed 1)).1
    let e2 := (((e1.placeOrder 0 .bid 5 2 (some 10)).1.cancelOrder 0 0).modifyOrder 0 0 (some 7) none)
    e2.l2 = e1.l2 ∧ e2.market.level2 2 = e1.market.level2 2 ∧ e2.records = e1.records ∧
      (e2.market.books.map (·.trades)) = [[]] ∧ e2.queue.length = 3 ∧
      (e2.market.books.map (fun b => b.orders.map (·.order.status))) = [[.active, .new]] := by decide

end Bourse.Props.C10
