/-
C10 — queued instructions are invisible until the next step.
Property theorems only.
-/
import Bourse.Model.Env

namespace Bourse.Props.C10
open Bourse

/-- Every market-data view of a book is a function of its two side structures (and the tick
size) only — never of the order table. -/
theorem views_depend_on_sides (b b' : Book) (n : Nat) (hb : b'.bid = b.bid) (ha : b'.ask = b.ask)
    (ht : b'.tick = b.tick) :
    b'.bidAsk = b.bidAsk ∧ b'.bidVol = b.bidVol ∧ b'.askVol = b.askVol ∧
    b'.bidBestVolAndOrders = b.bidBestVolAndOrders ∧ b'.askBestVolAndOrders = b.askBestVolAndOrders ∧
    b'.bidLevels n = b.bidLevels n ∧ b'.askLevels n = b.askLevels n ∧
    b'.level1 = b.level1 ∧ b'.level2 n = b.level2 n ∧ b'.mid2 = b.mid2 := by
  simp [Book.bidAsk, Book.bidVol, Book.askVol, Book.bidBestVolAndOrders, Book.askBestVolAndOrders,
    Book.bidLevels, Book.askLevels, Book.level1, Book.level2, Book.mid2, hb, ha, ht]

/-- Creating an order touches nothing but the order table, which gains exactly one order with
status New (or nothing at all when the price is rejected). -/
theorem create_only_appends (b : Book) (sd : Side) (vol tr : Nat) (p : Option Nat) :
    let b' := (b.createOrder sd vol tr p).1
    b'.bid = b.bid ∧ b'.ask = b.ask ∧ b'.tick = b.tick ∧ b'.t = b.t ∧ b'.trades = b.trades ∧
    b'.tradeVol = b.tradeVol ∧ b'.trading = b.trading ∧ b'.stamp = b.stamp ∧
    (b'.orders = b.orders ∨
      ∃ e : Entry, b'.orders = b.orders ++ [e] ∧ e.order.status = .new ∧ e.order.id = b.orders.length ∧
        e.order.vol = vol ∧ e.order.side = sd ∧ e.order.trader = tr) := by
  unfold Book.createOrder
  split
  · split
    · simp
    · refine ⟨rfl, rfl, rfl, rfl, rfl, rfl, rfl, rfl, Or.inr ⟨_, rfl, ?_⟩⟩
      simp [Book.mkOrder]
  · refine ⟨rfl, rfl, rfl, rfl, rfl, rfl, rfl, rfl, Or.inr ⟨_, rfl, ?_⟩⟩
    simp [Book.mkOrder]

/-- **Submitting a new order is invisible**: in the environment only the addressed book's order
table (one more New order) and the instruction queue change; the cached level-2 data, every
recorded series, the per-step traded volumes and every other book are literally unchanged, and
the addressed book's level-2 data is unchanged. -/
theorem env_place_invisible (e : MEnv) (a : Nat) (sd : Side) (vol tr : Nat) (p : Option Nat) :
    let e' := (e.placeOrder a sd vol tr p).1
    e'.l2 = e.l2 ∧ e'.records = e.records ∧ e'.tradeVols = e.tradeVols ∧ e'.stepSize = e.stepSize ∧
    e'.market.level2 e.nLevels = e.market.level2 e.nLevels ∧
    (∀ a', a' ≠ a → e'.market.books[a']? = e.market.books[a']?) := by
  have hm : ∀ (m : Market), (m.createOrder a sd vol tr p).1.level2 e.nLevels = m.level2 e.nLevels ∧
      ∀ a', a' ≠ a → (m.createOrder a sd vol tr p).1.books[a']? = m.books[a']? := by
    intro m
    simp only [Market.createOrder, Market.stepOn]
    split
    · rename_i b hb
      obtain ⟨hlt, rfl⟩ := List.getElem?_eq_some_iff.mp hb
      constructor
      · simp only [Market.level2, Book.step]
        apply List.ext_getElem
        · simp
        · intro i h1 h2
          simp only [List.getElem_map, List.getElem_set]
          split
          · rename_i hia; subst hia
            have hc := create_only_appends m.books[a] sd vol tr p
            exact (views_depend_on_sides _ _ _ hc.1 hc.2.1 hc.2.2.1).2.2.2.2.2.2.2.2.1
          · rfl
      · intro a' hne; simp [Ne.symm hne]
    · exact ⟨rfl, fun _ _ => rfl⟩
  simp only [MEnv.placeOrder]
  split <;> exact ⟨rfl, rfl, rfl, rfl, (hm e.market).1, (hm e.market).2⟩

/-- **Queued cancellations and modifications are invisible**: nothing but the queue changes. -/
theorem env_cancel_modify_invisible (e : MEnv) (a id : Nat) (p v : Option Nat) :
    e.cancelOrder a id = { e with queue := e.queue ++ [(a, .cancel id)] } ∧
    e.modifyOrder a id p v = { e with queue := e.queue ++ [(a, .modify id p v)] } := ⟨rfl, rfl⟩

/-- The snapshot handed to agents equals the live books' level-2 data. -/
def CacheOk (e : MEnv) : Prop := e.l2 = e.market.level2 e.nLevels

theorem cache_init (t0 : Nat) (ticks : List Nat) (step : Nat) (trading : Bool) (n : Nat) :
    CacheOk (MEnv.new t0 ticks step trading n) := rfl

theorem toggle_level2 (m : Market) (n : Nat) :
    m.enableTrading.level2 n = m.level2 n ∧ m.disableTrading.level2 n = m.level2 n := by
  simp [Market.enableTrading, Market.disableTrading, Market.level2, Book.enableTrading, Book.disableTrading,
    Book.level2, Book.bidAsk, Book.bidVol, Book.askVol, Book.bidLevels, Book.askLevels]

/-- **The cached snapshot is always the live level-2 data as of the end of the most recent step
(or of construction)**: it is set from the live books at the end of every step and no operation
between steps changes either the cache or the live level-2 data. -/
theorem cache_inv (e : MEnv) (g : Xoro) (op : MEnv.EOp) (h : CacheOk e) (hf : (e.apply g op).1.1.fault = false) :
    CacheOk (e.apply g op).1.1 := by
  unfold CacheOk at h ⊢
  cases op with
  | submit a sd vol tr p =>
    have := env_place_invisible e a sd vol tr p
    simp only [MEnv.apply]
    have hn : (e.placeOrder a sd vol tr p).1.nLevels = e.nLevels := by
      simp only [MEnv.placeOrder]; split <;> rfl
    rw [hn, this.1, this.2.2.2.2.1, h]
  | qcancel a id => exact h
  | qmodify a id p v => exact h
  | step =>
    simp only [MEnv.apply, MEnv.step] at hf ⊢
    split
    · rfl
    · rename_i hs; simp [hs] at hf
  | trading on =>
    cases on
    · simp only [MEnv.apply, MEnv.disableTrading]; rw [(toggle_level2 _ _).2]; exact h
    · simp only [MEnv.apply, MEnv.enableTrading]; rw [(toggle_level2 _ _).1]; exact h

/-- Non-vacuity: instructions that would trade / cancel / re-price immediately if applied directly
leave the published data untouched until the step. -/
example :
    let e0 := ((MEnv.new 0 [1] 10 true 2).placeOrder 0 .ask 5 1 (some 10)).1
    let e1 := (e0.step (Xoro.seed 1)).1
    let e2 := (((e1.placeOrder 0 .bid 5 2 (some 10)).1.cancelOrder 0 0).modifyOrder 0 0 (some 7) none)
    e2.l2 = e1.l2 ∧ e2.market.level2 2 = e1.market.level2 2 ∧ e2.records = e1.records ∧
      (e2.market.books.map (·.trades)) = [[]] ∧ e2.queue.length = 3 ∧
      (e2.market.books.map (fun b => b.orders.map (·.order.status))) = [[.active, .new]] := by decide

end Bourse.Props.C10
