/-
C09 — a simulation is a pure function of its seed and parameters.
Property theorems only. PARTIAL by nature: address-, hash- or time-dependence are runtime
phenomena no model exhibits; what is proved is that the modelled runner has no input other than
(seed, parameters), threads exactly one generator, and that the two progress-bar branches of the
real runners (translated from runner.rs on every run) are the same loop.
-/
import Bourse.Model.Agents
import Bourse.Generated.RunnerBranches
import Bourse.Lemmas.SimHistory

namespace Bourse.Props.C09
open Bourse
open Bourse.Generated.Runner

/-- The loop body the model `simLoop` implements: update the agents, then step the environment,
both on the one generator. -/
def modelBody : List String :=
  ["agents", ".", "update", "(", "env", ",", "&", "mut", "rng", ")", ";",
   "env", ".", "step", "(", "&", "mut", "rng", ")", ";"]

def modelPre : List String :=
  ["let", "mut", "rng", "=", "Xoroshiro128StarStar", "::", "seed_from_u64", "(", "seed", ")", ";"]

/-- **The two progress-bar branches are the same loop** (on the source as it is now): same range,
same body, the only difference being the `tqdm!` wrapper around the range; and that body is the
one the model implements; the generator is created from the seed and nothing else precedes or
follows the loop. -/
theorem runner_branches_equal :
    sim_runner_true_body = sim_runner_false_body ∧ sim_runner_true_range = sim_runner_false_range ∧
    sim_runner_false_body = modelBody ∧ sim_runner_false_range = ["0", "..", "n_steps"] ∧
    sim_runner_pre = modelPre ∧ sim_runner_post = [] ∧
    sim_runner_true_wrapper = "tqdm!" ∧ sim_runner_false_wrapper = "" := by decide

theorem market_runner_branches_equal :
    market_sim_runner_true_body = market_sim_runner_false_body ∧
    market_sim_runner_true_range = market_sim_runner_false_range ∧
    market_sim_runner_false_body = modelBody ∧ market_sim_runner_false_range = ["0", "..", "n_steps"] ∧
    market_sim_runner_pre = modelPre ∧ market_sim_runner_post = [] ∧
    market_sim_runner_true_wrapper = "tqdm!" ∧ market_sim_runner_false_wrapper = "" := by decide

/-- One iteration: update every agent (in order) on the shared environment and generator, then
step the environment with the same generator. -/
theorem simLoop_succ (n : Nat) (as : List RandomAgents) (e : MEnv) (g : Xoro) :
    simLoop (n + 1) as e g =
      (updateAll as e g).bind (fun r => simLoop n r.1 (r.2.1.step r.2.2).1 (r.2.1.step r.2.2).2) := by
  simp only [simLoop]
  cases updateAll as e g with
  | none => rfl
  | some r => rfl

/-- **A run is a fold**: running `n + m` steps is running `n` steps and then `m` more from the
state (agents, environment, generator) that the first `n` left — nothing else is carried over. -/
theorem simLoop_add (n m : Nat) (as : List RandomAgents) (e : MEnv) (g : Xoro) :
    simLoop (n + m) as e g = (simLoop n as e g).bind (fun r => simLoop m r.1 r.2.1 r.2.2) := by
  induction n generalizing as e g with
  | zero => simp [simLoop]
  | succ n ih =>
    rw [show n + 1 + m = (n + m) + 1 by omega, simLoop_succ, simLoop_succ]
    cases updateAll as e g with
    | none => rfl
    | some r => simp only [Option.bind_some]; exact ih _ _ _

/-- **Same seed and parameters, same run**: the whole outcome (agents' holdings, every order, trade,
record, and the generator state) is a function of the seed, the environment parameters, the
agents and the step count. -/
theorem run_deterministic (e1 e2 : MEnv) (as1 as2 : List RandomAgents) (s1 s2 n1 n2 : Nat)
    (he : e1 = e2) (ha : as1 = as2) (hs : s1 = s2) (hn : n1 = n2) :
    simRunner e1 as1 s1 n1 = simRunner e2 as2 s2 n2 := by
  subst he ha hs hn; rfl

/-- Non-vacuity and a concrete prediction: three random agents, seed 37396, five steps — the
model run exists (no abort) and produces orders; a different seed gives a different run. -/
example :
    let e := MEnv.new 11 [2] 4 true 10
    let ag : RandomAgents := { asset := 0, orders := [none, none, none], tickLo := 8, tickHi := 11, volLo := 4,
                               volHi := 6, tickSize := 2, rateNum := 8, rateDen := 16 }
    ((simRunner e [ag] 37396 5).map fun r => r.2.1.market.books.map (·.orders.map (·.order.price))) = some [[16, 16, 16, 18, 18, 16]] ∧
    ((simRunner e [ag] 37396 5).map fun r => r.2.1.market.books.map (·.orders.map (·.order.price))) ≠
      ((simRunner e [ag] 37397 5).map fun r => r.2.1.market.books.map (·.orders.map (·.order.price))) := by
  decide

/-! ### Every composition of the built-in agents (`Model/Sim`): random, noise, momentum, derived sets -/

/-- One iteration of the general runner. -/
theorem simLoopG_succ (th : F → F) (n : Nat) (as : SimAgents) (e : MEnv) (g : Xoro) :
    simLoopG th (n + 1) as e g =
      (as.updateAll th e g).bind (fun r => simLoopG th n r.1 (r.2.1.step r.2.2).1 (r.2.1.step r.2.2).2) := by
  simp only [simLoopG]
  cases as.updateAll th e g with
  | none => rfl
  | some r => rfl

/-- **A run is a fold, for every composition of agents**: `n + m` steps are `n` steps and then `m`
more from the state (agents, environment, generator) the first `n` left; nothing else is carried. -/
theorem simLoopG_add (th : F → F) (n m : Nat) (as : SimAgents) (e : MEnv) (g : Xoro) :
    simLoopG th (n + m) as e g = (simLoopG th n as e g).bind (fun r => simLoopG th m r.1 r.2.1 r.2.2) := by
  induction n generalizing as e g with
  | zero => simp [simLoopG]
  | succ n ih =>
    rw [show n + 1 + m = (n + m) + 1 by omega, simLoopG_succ, simLoopG_succ]
    cases as.updateAll th e g with
    | none => rfl
    | some r => simp only [Option.bind_some]; exact ih _ _ _

/-- Same seed, environment, agents (parameters, samplers, private states), `tanh` and step count:
the same run — orders, trades, records, agents' states and the generator. -/
theorem general_run_deterministic (th : F → F) (e1 e2 : MEnv) (as1 as2 : SimAgents) (s1 s2 n1 n2 : Nat)
    (he : e1 = e2) (ha : as1 = as2) (hs : s1 = s2) (hn : n1 = n2) :
    simRunnerG th e1 as1 s1 n1 = simRunnerG th e2 as2 s2 n2 := by
  subst he ha hs hn; rfl

/-- **An update of any agent or derived set of agents is a sequence of environment submissions**
(so the generator is the only thing besides the environment it reads, and `place_order` /
`cancel_order` the only way it acts). -/
theorem agent_update_is_submissions (th : F → F) (a : SimAgent) (e : MEnv) (g : Xoro) (a' : SimAgent) (e' : MEnv) (g' : Xoro)
    (h : a.update th e g = some (a', e', g')) :
    ∃ ops : List MEnv.EOp, (∀ op ∈ ops, Props.C10.IsSubmission op) ∧ ∀ g0, MEnv.runOps (e, g0) ops = (e', g0) :=
  SimAgent.update_subs th a e g a' e' g' h

/-- **A whole simulation is a history of environment operations**: for every composition of agents,
every sampler, every `tanh`, every seed and step count, the final environment is reached from the
initial one by submissions and steps only — so the theorems about environment histories (C08, C10,
C11, C14) and, per asset, about book histories speak about every simulation. -/
theorem simulation_is_environment_history (th : F → F) (e : MEnv) (as : SimAgents) (seed steps : Nat)
    (as' : SimAgents) (e' : MEnv) (g' : Xoro) (h : simRunnerG th e as seed steps = some (as', e', g')) :
    SimReach e e' :=
  simLoopG_reach th steps as e _ as' e' g' h

/-- … in particular nothing an agent does between two steps is visible before the next step: the
cached level-2 data, every recorded series and the per-step volumes are unchanged by any update, and
every book only gains New orders. -/
theorem agent_update_invisible (th : F → F) (as : SimAgents) (e : MEnv) (g : Xoro) (as' : SimAgents) (e' : MEnv) (g' : Xoro)
    (h : as.updateAll th e g = some (as', e', g')) :
    e'.l2 = e.l2 ∧ e'.records = e.records ∧ e'.tradeVols = e.tradeVols ∧ Props.C10.MarketExt e.market e'.market := by
  obtain ⟨ops, hs, hr⟩ := SimAgents.updateAll_subs th as e g as' e' g' h
  have := Props.C10.submissions_invisible (e, g) ops hs
  simp only [hr g] at this
  exact ⟨this.2.1, this.2.2.1, this.2.2.2.1, this.2.2.2.2.2.2⟩


/-- Non-vacuity: a derived set holding a nested set with random agents, five steps: the general
runner produces exactly the run of the special-purpose loop `simRunner` (the one tied bit for bit to
real simulations). -/
example :
    let e := MEnv.new 11 [2] 4 true 10
    let ag : RandomAgents := { asset := 0, orders := [none, none, none], tickLo := 8, tickHi := 11, volLo := 4,
                               volHi := 6, tickSize := 2, rateNum := 8, rateDen := 16 }
    ((simRunnerG (fun x => x) e (.cons (.set (.cons (.random ag) .nil)) .nil) 37396 5).map
        fun r => r.2.1.market.books.map (·.orders.map (·.order.price))) =
      ((simRunner e [ag] 37396 5).map fun r => r.2.1.market.books.map (·.orders.map (·.order.price))) := by
  decide +kernel

end Bourse.Props.C09
