/-
C09 — a simulation is a pure function of its seed and parameters.
Property theorems only. PARTIAL by nature: address-, hash- or time-dependence are runtime
phenomena no model exhibits; what is proved is that the modelled runner has no input other than
(seed, parameters), threads exactly one generator, and that the two progress-bar branches of the
real runners (translated from runner.rs on every run) are the same loop.
-/
import Bourse.Model.Agents
import Bourse.Generated.RunnerBranches

namespace Bourse.Props.C09
open Bourse
open Bourse.Generated.Runner

/-- The loop body the model `simLoop` implements: update the agents, then step the environment,
both on the one generator. -/
def modelBody : List String :=
  ["agents", ".", "update", "(", "env", ",", "&", "mut", "rng", ")", ";",
   "env", ".", "step", "(", "&", "mut", "rng", ")", ";"]

def modelPre : List String :=
  ["let", "mut", "rng", "=", "Xoroshiro128StarStar", "::", "seed_from_u64", "(", "seed", ")", ";"]

/-- **The two progress-bar branches are the same loop** (on the source as it is now): same range,
same body, the only difference being the `tqdm!` wrapper around the range; and that body is the
one the model implements; the generator is created from the seed and nothing else precedes or
follows the loop. -/
theorem runner_branches_equal :
    sim_runner_true_body = sim_runner_false_body ∧ sim_runner_true_range = sim_runner_false_range ∧
    sim_runner_false_body = modelBody ∧ sim_runner_false_range = ["0", "..", "n_steps"] ∧
    sim_runner_pre = modelPre ∧ sim_runner_post = [] ∧
    sim_runner_true_wrapper = "tqdm!" ∧ sim_runner_false_wrapper = "" := by decide

theorem market_runner_branches_equal :
    market_sim_runner_true_body = market_sim_runner_false_body ∧
    market_sim_runner_true_range = market_sim_runner_false_range ∧
    market_sim_runner_false_body = modelBody ∧ market_sim_runner_false_range = ["0", "..", "n_steps"] ∧
    market_sim_runner_pre = modelPre ∧ market_sim_runner_post = [] ∧
    market_sim_runner_true_wrapper = "tqdm!" ∧ market_sim_runner_false_wrapper = "" := by decide

/-- One iteration: update every agent (in order) on the shared environment and generator, then
step the environment with the same generator. -/
theorem simLoop_succ (n : Nat) (as : List RandomAgents) (e : MEnv) (g : Xoro) :
    simLoop (n + 1) as e g =
      (updateAll as e g).bind (fun r => simLoop n r.1 (r.2.1.step r.2.2).1 (r.2.1.step r.2.2).2) := by
  simp only [simLoop]
  cases updateAll as e g with
  | none => rfl
  | some r => rfl

/-- **A run is a fold**: running `n + m` steps is running `n` steps and then `m` more from the
state (agents, environment, generator) that the first `n` left — nothing else is carried over. -/
theorem simLoop_add (n m : Nat) (as : List RandomAgents) (e : MEnv) (g : Xoro) :
    simLoop (n + m) as e g = (simLoop n as e g).bind (fun r => simLoop m r.1 r.2.1 r.2.2) := by
  induction n generalizing as e g with
  | zero => simp [simLoop]
  | succ n ih =>
    rw [show n + 1 + m = (n + m) + 1 by omega, simLoop_succ, simLoop_succ]
    cases updateAll as e g with
    | none => rfl
    | some r => simp only [Option.bind_some]; exact ih _ _ _

/-- **Same seed and parameters, same run**: the whole outcome (agents' holdings, every order, trade,
record, and the generator state) is a function of the seed, the environment parameters, the
agents and the step count. -/
theorem run_deterministic (e1 e2 : MEnv) (as1 as2 : List RandomAgents) (s1 s2 n1 n2 : Nat)
    (he : e1 = e2) (ha : as1 = as2) (hs : s1 = s2) (hn : n1 = n2) :
    simRunner e1 as1 s1 n1 = simRunner e2 as2 s2 n2 := by
  subst he ha hs hn; rfl

/-- Non-vacuity and a concrete prediction: three random agents, seed 37396, five steps — the
model run exists (no abort) and produces orders; a different seed gives a different run. -/
example :
    let e := MEnv.new 11 [2] 4 true 10
    let ag : RandomAgents := { asset := 0, orders := [none, none, none], tickLo := 8, tickHi := 11, volLo := 4,
                               volHi := 6, tickSize := 2, rateNum := 8, rateDen := 16 }
    ((simRunner e [ag] 37396 5).map fun r => r.2.1.market.books.map (·.orders.map (·.order.price))) = some [[16, 16, 16, 18, 18, 16]] ∧
    ((simRunner e [ag] 37396 5).map fun r => r.2.1.market.books.map (·.orders.map (·.order.price))) ≠
      ((simRunner e [ag] 37397 5).map fun r => r.2.1.market.books.map (·.orders.map (·.order.price))) := by
  decide

end Bourse.Props.C09
