/-
C02 — published market data equals the resting orders; the book is never crossed while
trading was always on. Property theorems only.
-/
import Bourse.Model.Ops
import Bourse.Spec.Views
import Bourse.Spec.Ref
import Bourse.Lemmas.Reach
import Bourse.Lemmas.ViewsCorrect
import Bourse.Lemmas.Grid
import Bourse.Spec.Audit
import Bourse.Lemmas.Uncrossed
import Bourse.Lemmas.NoOverflow

import Bourse.Lemmas.EnvInv
namespace Bourse.Props.C02
open Bourse

/-- All views agree with one another: the level-1 record is made of exactly the values the
scalar getters return. -/
theorem level1_agrees (b : Book) :
    b.level1 = { bidPrice := b.bidAsk.1, askPrice := b.bidAsk.2, bidVol := b.bidVol, askVol := b.askVol,
                 bidTouchVol := b.bidBestVol, askTouchVol := b.askBestVol,
                 bidTouchOrders := b.bidBestVolAndOrders.2, askTouchOrders := b.askBestVolAndOrders.2 } := rfl

/-- The level-2 record is made of the touch prices, side volumes and the per-level getters. -/
theorem level2_agrees (b : Book) (n : Nat) :
    b.level2 n = { bidPrice := b.bidAsk.1, askPrice := b.bidAsk.2, bidVol := b.bidVol, askVol := b.askVol,
                   bidLevels := b.bidLevels n, askLevels := b.askLevels n } := rfl

/-- The documented sentinels: an empty bid side reports price 0, an empty ask side the maximum
price, and an empty side reports touch volume and order count 0. -/
theorem empty_side_sentinels (b : Book) :
    (b.bid.orders = [] → b.bidAsk.1 = 0) ∧ (b.ask.orders = [] → b.bidAsk.2 = MAXP) ∧
    (b.bid.volumes = [] → b.bidBestVolAndOrders = (0, 0)) ∧
    (b.ask.volumes = [] → b.askBestVolAndOrders = (0, 0)) := by
  refine ⟨?_, ?_, ?_, ?_⟩ <;> intro h <;>
    simp [Book.bidAsk, bestPrice, SideS.bestKey, SMap.first?, Book.bidBestVolAndOrders,
      Book.askBestVolAndOrders, SideS.bestVolAndOrders, h]

/-- Level 0 is the touch: on a non-empty side whose aggregates are keyed like its queue,
the first published level is the touch volume and count. -/
theorem ask_level0_is_touch (b : Book) (n : Nat) (k : Nat × Nat) (id : Nat) (r : SMap (Nat × Nat) Nat)
    (pk : Nat) (v : Nat × Nat) (r' : SMap Nat (Nat × Nat))
    (ho : b.ask.orders = (k, id) :: r) (hv : b.ask.volumes = (pk, v) :: r') (hk : k.1 = pk)
    (hp : pk < P32) :
    (b.askLevels (n + 1)).head? = some b.askBestVolAndOrders := by
  simp [Book.askLevels, List.range_succ_eq_map, Book.bidAsk, bestPrice, SideS.bestKey, SMap.first?, ho,
    hk, priceKey, Nat.mod_eq_of_lt hp, SideS.volAndOrdersAtKey, hv, SMap.find?, KeyOrd.lt,
    Book.askBestVolAndOrders, SideS.bestVolAndOrders]

/-- A freshly created book publishes exactly what recomputation from its (empty) order list
gives, for every level count. -/
theorem init_views (t0 tick : Nat) (trading : Bool) (n : Nat) :
    (Book.new t0 tick trading).observe n = Ref.observe (Ref.init t0 tick trading) n := by
  simp [Book.observe, Ref.observe, Book.new, Ref.init, Book.bidAsk, bestPrice, SideS.bestKey,
    SideS.empty, SMap.first?, Views.bestBid, Views.bestAsk, Views.resting, Views.sideVol, Views.touch,
    Views.atPrice, Views.best, Book.bidVol, Book.askVol, Book.bidBestVolAndOrders,
    Book.askBestVolAndOrders, SideS.bestVolAndOrders, Book.bidBestVol, Book.askBestVol, SideS.bestVol,
    Book.bidLevels, Book.askLevels, SideS.volAndOrdersAtKey, SMap.find?, Views.levels, Views.level,
    Book.level1, Book.level2, Views.level1, Views.level2, Book.mid2, Views.mid2, MAXP]

/-- **The separately maintained aggregates never drift**: in every state reachable by valid
fault-free operations, for every price key the published (volume, order count) of that level is
exactly the (sum of remaining volumes, number) of the orders queued there, the side's total volume
is the sum over its whole queue, every queue entry is an Active order of that side carrying that
key with positive volume, and every Active order is queued exactly once under its key. -/
theorem aggregates_exact (t0 tick : Nat) (trading : Bool) (ht : 0 < tick) (ops : List Op)
    (hv : ∀ op ∈ ops, ValidOp op) (hnf : NoFault (Book.new t0 tick trading) ops) :
    let b := (Book.new t0 tick trading).run ops
    ∀ sd, (∀ pk, SMap.find? pk (b.side sd).volumes =
             (if (aggAt b.orders (b.side sd).orders pk).2 = 0 then none else some (aggAt b.orders (b.side sd).orders pk))) ∧
          (b.side sd).vol = totalVol b.orders (b.side sd).orders ∧
          (∀ (k : Nat × Nat) (id : Nat), (k, id) ∈ (b.side sd).orders → EntryOk b.orders sd b.stamp k id) ∧
          (∀ (id : Nat) (e : Entry), b.orders[id]? = some e → e.order.status = .active → e.order.side = sd →
             ((e.key.pk, e.key.st), id) ∈ (b.side sd).orders) := by
  intro b sd
  have h := inv_reachable t0 tick trading ht ops hv hnf
  refine ⟨(h.side sd).agg, (h.side sd).tot, (h.side sd).ent, ?_⟩
  intro id e he ha hs
  have := h.act id e he ha
  rw [hs] at this; exact this

/-- The touch never shows a side that is empty in the table, nor misses one that is not: a side's
queue is empty exactly when no Active order of that side exists. -/
theorem queue_empty_iff (b : Book) (h : Inv b) (sd : Side) :
    (b.side sd).orders = [] ↔ ∀ (id : Nat) (e : Entry), b.orders[id]? = some e → e.order.status = .active → e.order.side ≠ sd := by
  constructor
  · intro hq id e he ha hs
    have := h.act id e he ha
    rw [hs, hq] at this; cases this
  · intro hall
    cases hq : (b.side sd).orders with
    | nil => rfl
    | cons hd tl =>
      obtain ⟨e, he, ha, hs, _⟩ := (h.side sd).ent hd.1 hd.2 (by rw [hq]; exact List.mem_cons_self)
      exact absurd hs (hall _ e he ha)

/-- **Published market data always equals the resting orders.** In every state reachable from a
new book by valid fault-free operations (placements, cancels, modifications, trading toggles,
clock changes, snapshot reloads — any interleaving, any length), for every number `n` of published
levels whose probe prices stay below 2^32·… (`i·tick < 2^32` for `i < n`; true for tick ≤ 10 and
n ≤ 24 with a margin of 10^7): the touch prices (with the sentinels 0 and maximum price), both total
volumes, touch volume and order count of both sides, all per-level (volume, count) pairs, the level-1
and level-2 records and the mid-price are exactly the values recomputed from the list of orders
alone, and hence agree with one another. -/
theorem published_data_equals_resting_orders (t0 tick : Nat) (trading : Bool) (ht : 0 < tick) (ops : List Op)
    (hv : ∀ op ∈ ops, ValidOp op) (hnf : NoFault (Book.new t0 tick trading) ops) (n : Nat)
    (hn : ∀ i, i < n → i * tick < P32) :
    let b := (Book.new t0 tick trading).run ops
    let os := b.orders.map (·.order)
    b.bidAsk = (Views.bestBid os, Views.bestAsk os) ∧
    b.bidVol = Views.sideVol os .bid ∧ b.askVol = Views.sideVol os .ask ∧
    b.bidBestVolAndOrders = Views.touch os .bid ∧ b.askBestVolAndOrders = Views.touch os .ask ∧
    b.bidLevels n = Views.levels os tick .bid n ∧ b.askLevels n = Views.levels os tick .ask n ∧
    b.level1 = Views.level1 os ∧ b.level2 n = Views.level2 os tick n ∧ b.mid2 = Views.mid2 os := by
  intro b os
  have h := inv_reachable t0 tick trading ht ops hv hnf
  have htick : b.tick = tick := run_tick _ ops
  have := views_correct h n (by rw [htick]; exact hn)
  rw [htick] at this
  exact this

/-- The same fact in the form the per-run audit uses: the decidable predicate `Audit.c02Views`, which
the driver evaluates on the REAL implementation's observations after every operation, reports no
failed clause on the model's observation of any reachable state. -/
theorem audit_c02_passes (t0 tick : Nat) (trading : Bool) (ht : 0 < tick) (ops : List Op)
    (hv : ∀ op ∈ ops, ValidOp op) (hnf : NoFault (Book.new t0 tick trading) ops) (n : Nat)
    (hn : ∀ i, i < n → i * tick < P32) :
    Audit.c02Views tick n (((Book.new t0 tick trading).run ops).observe n) = [] := by
  have h := published_data_equals_resting_orders t0 tick trading ht ops hv hnf n hn
  simp only at h
  obtain ⟨h1, h2, h3, h4, h5, h6, h7, h8, h9, h10⟩ := h
  simp only [Audit.c02Views, Book.observe, Audit.chk]
  simp [h1, h2, h3, h4, h5, h6, h7, h8, h9, h10, Book.bidBestVol, Book.askBestVol, SideS.bestVol,
    Book.bidBestVolAndOrders, Book.askBestVolAndOrders] at *
  simp [← h4, ← h5]

/-- For the quantifier of the property (tick sizes 1..10, level counts 1..24) the probe-price
hypothesis always holds. -/
theorem probe_range_ok (tick n : Nat) (ht : tick ≤ 10) (hn : n ≤ 24) : ∀ i, i < n → i * tick < P32 := by
  intro i hi
  have : i * tick ≤ 24 * 10 := Nat.mul_le_mul (by omega) ht
  simp only [P32]; omega

/-- Non-vacuity / concrete reading: a two-level book with a partially filled head order, after
a cancel and a re-price, publishes exactly the recomputation from its order list. -/
example :
    let b0 := Book.new 0 2 true
    let ops : List Op := [.cap .ask 5 1 (some 10), .time 1, .cap .ask 7 2 (some 12), .time 2,
      .cap .bid 3 3 (some 10), .time 3, .cap .bid 4 4 (some 8), .time 4, .cap .bid 6 5 (some 6),
      .time 5, .cancel 3, .time 6, .modify 4 (some 8) (some 9)]
    let b := b0.run ops
    let r := ops.foldl (fun s op => (Ref.step s op).1) (Ref.init 0 2 true)
    b.observe 3 = Ref.observe r 3 ∧ b.bidAsk = (8, 10) ∧ b.askBestVolAndOrders = (2, 1) := by
  decide


/-! ### Never crossed while trading has never been disabled -/

/-- **C02, last sentence.** For every valid fault-free history on a book created with trading
enabled that never disables trading: whenever both sides are non-empty, the published best bid is
strictly below the published best ask. (The entrant trades away everything its limit admits before
it may rest — `enter_uncrossed` — and every other operation only removes orders or keeps prices.) -/
theorem never_crossed (t0 tick : Nat) (ht : 0 < tick) (ops : List Op)
    (hv : ∀ op ∈ ops, ValidOp op) (hno : ∀ op ∈ ops, op ≠ .trading false)
    (hnf : NoFault (Book.new t0 tick true) ops) :
    let b := (Book.new t0 tick true).run ops
    b.bid.orders ≠ [] → b.ask.orders ≠ [] → b.bidAsk.1 < b.bidAsk.2 := by
  intro b hb ha
  have h := inv_reachable t0 tick true ht ops hv hnf
  have hu0 : RUncrossed (abs (Book.new t0 tick true)) := by
    intro sd i j hi _
    cases sd <;> simp [abs, Book.new, absq, SideS.empty, Ref.RState.queue] at hi
  have hu := uncrossed_run (inv_new t0 tick true ht) hu0 rfl ops hv hno hnf
  exact bidAsk_lt_of_uncrossed h hu hb ha

/-- The same fact as the audit predicate the driver evaluates on the real implementation: it reports
nothing on the model's observation of any such state. -/
theorem audit_uncrossed_passes (t0 tick : Nat) (ht : 0 < tick) (ops : List Op)
    (hv : ∀ op ∈ ops, ValidOp op) (hno : ∀ op ∈ ops, op ≠ .trading false)
    (hnf : NoFault (Book.new t0 tick true) ops) (n : Nat) :
    Audit.c02Uncrossed true (((Book.new t0 tick true).run ops).observe n) = [] := by
  have h := inv_reachable t0 tick true ht ops hv hnf
  have hnc := never_crossed t0 tick ht ops hv hno hnf
  simp only at hnc
  have hvw := views_correct h 0 (by intro i hi; omega)
  simp only [Audit.c02Uncrossed, Audit.chk, Book.observe, Bool.not_true, Bool.false_or]
  by_cases hb : ((Book.new t0 tick true).run ops).bid.orders = []
  · have := resting_nil_of_queue_nil h .bid hb
    simp [this]
  · by_cases ha : ((Book.new t0 tick true).run ops).ask.orders = []
    · have := resting_nil_of_queue_nil h .ask ha
      simp [this]
    · have hlt := hnc hb ha
      rw [hvw.1] at hlt
      simp only at hlt
      simp [hlt]

/-- Non-vacuity: both sides populated after trades, a cancel and a re-price that trades. -/
example :
    let ops : List Op := [.cap .ask 5 1 (some 10), .cap .ask 7 2 (some 12), .cap .bid 3 3 (some 10),
      .cap .bid 4 4 (some 8), .cap .bid 6 5 (some 6), .cancel 3, .modify 4 (some 10) (some 9)]
    let b := (Book.new 0 2 true).run ops
    NoFault (Book.new 0 2 true) ops ∧ b.bid.orders ≠ [] ∧ b.ask.orders ≠ [] ∧ b.bidAsk = (10, 12) := by
  refine ⟨?_, by decide, by decide, by decide⟩
  simp only [NoFault, and_true]
  decide

/-! ### For valid histories as the property states them (`NoFault` discharged by `ValidHistory`) -/

theorem published_data_equals_resting_orders_valid (t0 tick : Nat) (trading : Bool) (ops : List Op)
    (h : ValidHistory t0 tick trading ops) (n : Nat) (hn : ∀ i, i < n → i * tick < P32) :
    let b := (Book.new t0 tick trading).run ops
    let os := b.orders.map (·.order)
    b.bidAsk = (Views.bestBid os, Views.bestAsk os) ∧
    b.bidVol = Views.sideVol os .bid ∧ b.askVol = Views.sideVol os .ask ∧
    b.bidBestVolAndOrders = Views.touch os .bid ∧ b.askBestVolAndOrders = Views.touch os .ask ∧
    b.bidLevels n = Views.levels os tick .bid n ∧ b.askLevels n = Views.levels os tick .ask n ∧
    b.level1 = Views.level1 os ∧ b.level2 n = Views.level2 os tick n ∧ b.mid2 = Views.mid2 os :=
  published_data_equals_resting_orders t0 tick trading h.tick_pos ops h.ops_valid h.noFault n hn

theorem never_crossed_valid (t0 tick : Nat) (ops : List Op) (h : ValidHistory t0 tick true ops)
    (hno : ∀ op ∈ ops, op ≠ .trading false) :
    let b := (Book.new t0 tick true).run ops
    b.bid.orders ≠ [] → b.ask.orders ≠ [] → b.bidAsk.1 < b.bidAsk.2 :=
  never_crossed t0 tick h.tick_pos ops h.ops_valid hno h.noFault

/-- **The same for every asset of every running simulation**: in every state an environment (single-
or multi-asset) reaches by submissions, queued cancellations / modifications, trading switches and
steps — whatever the agents submit and whatever permutation the generator produces — every book's
published views equal the recomputation from that book's own order list. -/
theorem published_data_equals_resting_orders_in_simulations {s : MEnv × Xoro} (h : s.1.market.Inv)
    (ops : List MEnv.EOp) (hok : EnvRunOk s ops) (b : Book) (hb : b ∈ (MEnv.runOps s ops).1.market.books)
    (n : Nat) (hn : ∀ i, i < n → i * b.tick < P32) :
    let os := b.orders.map (·.order)
    b.bidAsk = (Views.bestBid os, Views.bestAsk os) ∧
    b.bidVol = Views.sideVol os .bid ∧ b.askVol = Views.sideVol os .ask ∧
    b.bidBestVolAndOrders = Views.touch os .bid ∧ b.askBestVolAndOrders = Views.touch os .ask ∧
    b.bidLevels n = Views.levels os b.tick .bid n ∧ b.askLevels n = Views.levels os b.tick .ask n ∧
    b.level1 = Views.level1 os ∧ b.level2 n = Views.level2 os b.tick n ∧ b.mid2 = Views.mid2 os :=
  env_views_correct h ops hok b hb n hn

end Bourse.Props.C02
