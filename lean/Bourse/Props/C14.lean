/-
C14 — the assets of a multi-asset market are independent books sharing one clock.
Property theorems only.
-/
import Bourse.Model.Market
import Bourse.Model.Env

namespace Bourse.Props.C14
open Bourse

/-- What a stand-alone book for asset `a` sees of a market-level operation: operations addressed
to `a`, and every fan-out operation (clock, trading flag, counter reset, snapshot reload). -/
def project (a : Nat) : Market.MOp → Option Op
  | .on a' op => if a' = a then some op else none
  | .time t => some (.time t)
  | .trading on => some (.trading on)
  | .resetVol => some .resetVol
  | .reload => some .reload

/-- **Locality.** An operation addressed to asset `a` changes book `a` by exactly the single-book
operation and returns that book's result; no other book changes. -/
theorem market_op_local (m : Market) (a : Nat) (op : Op) (b : Book) (h : m.books[a]? = some b) :
    (m.step (.on a op)).1.books[a]? = some (b.step op).1 ∧ (m.step (.on a op)).2 = (b.step op).2 ∧
    ∀ a', a' ≠ a → (m.step (.on a op)).1.books[a']? = m.books[a']? := by
  obtain ⟨hlt, hb⟩ := List.getElem?_eq_some_iff.mp h
  refine ⟨by simp [Market.step, Market.stepOn, hlt, hb], by simp [Market.step, Market.stepOn, h], ?_⟩
  intro a' hne
  simp [Market.step, Market.stepOn, h, Ne.symm hne]

/-- **Fan-out.** Clock changes, trading toggles, counter resets and reloads act on every book. -/
theorem market_fanout (m : Market) (t : Nat) :
    (m.step (.time t)).1.books = m.books.map (fun b => (b.step (.time t)).1) ∧
    (m.step (.trading true)).1.books = m.books.map (fun b => (b.step (.trading true)).1) ∧
    (m.step (.trading false)).1.books = m.books.map (fun b => (b.step (.trading false)).1) ∧
    (m.step .resetVol).1.books = m.books.map (fun b => (b.step .resetVol).1) ∧
    (m.step .reload).1.books = m.books.map (fun b => (b.step .reload).1) := by
  refine ⟨rfl, rfl, rfl, rfl, rfl⟩

/-- Every all-asset query returns each asset's own value, in asset order. -/
theorem market_queries_pointwise (m : Market) (n : Nat) :
    m.level2 n = m.books.map (·.level2 n) ∧ m.tradeVols = m.books.map (·.tradeVol) := ⟨rfl, rfl⟩

/-- One market step, seen from asset `a`: the book steps by the projected operation, or stays. -/
theorem step_project (m : Market) (op : Market.MOp) (a : Nat) :
    (m.step op).1.books[a]? =
      (m.books[a]?).map (fun b => match project a op with
                                  | some o => (b.step o).1
                                  | none => b) := by
  cases op with
  | on a' o =>
    simp only [Market.step, Market.stepOn, project]
    by_cases haa : a' = a
    · subst haa
      cases hb : m.books[a']? with
      | none => simp [hb]
      | some b =>
        have hlt : a' < m.books.length := (List.getElem?_eq_some_iff.mp hb).1
        simp [hlt]
    · cases hb : m.books[a']? with
      | none => simp [haa]
      | some b => simp [haa]
  | time t => simp [Market.step, Market.setTime, project, Book.step]
  | trading on => cases on <;> simp [Market.step, Market.enableTrading, Market.disableTrading, project, Book.step]
  | resetVol => simp [Market.step, Market.resetTradeVols, project, Book.step]
  | reload => simp [Market.step, Market.reload, project]

/-- **Projection law.** After any sequence of market operations, asset `a`'s book is exactly what
a stand-alone book produces when fed that asset's operations (and the shared clock / flag
operations) in the same order: assets never influence one another. -/
theorem market_projection (m : Market) (ops : List Market.MOp) (a : Nat) :
    (m.run ops).books[a]? = (m.books[a]?).map (fun b => b.run (ops.filterMap (project a))) := by
  induction ops generalizing m with
  | nil => simp [Market.run, Book.run]
  | cons op ops ih =>
    simp only [Market.run, List.foldl_cons] at ih ⊢
    rw [ih (m.step op).1, step_project]
    cases hb : m.books[a]? with
    | none => rfl
    | some b =>
      simp only [Option.map_some, List.filterMap_cons]
      cases hp : project a op with
      | none => rfl
      | some o => simp [Book.run]

/-- The number of assets never changes. -/
theorem n_assets_constant (m : Market) (op : Market.MOp) : (m.step op).1.books.length = m.books.length := by
  cases op with
  | on a o => simp only [Market.step, Market.stepOn]; split <;> simp
  | time t => simp [Market.step, Market.setTime]
  | trading on => cases on <;> simp [Market.step, Market.enableTrading, Market.disableTrading]
  | resetVol => simp [Market.step, Market.resetTradeVols]
  | reload => simp [Market.step, Market.reload]

/-- Non-vacuity: two assets with different tick sizes, interleaved operations giving both assets
the same local ids; asset 1's book equals the stand-alone run of its own operations. -/
example :
    let m := Market.new 0 [1, 2] true
    let ops : List Market.MOp := [.on 0 (.cap .ask 5 1 (some 10)), .on 1 (.cap .ask 5 1 (some 10)), .time 1,
      .on 0 (.cap .bid 3 2 (some 10)), .on 1 (.cap .bid 7 2 (some 12)), .time 2, .on 1 (.cancel 1),
      .on 0 (.modify 0 (some 11) none)]
    (m.run ops).books[1]? = some ((Book.new 0 2 true).run
      [.cap .ask 5 1 (some 10), .time 1, .cap .bid 7 2 (some 12), .time 2, .cancel 1]) ∧
    ((m.run ops).books.map (·.trades.length)) = [1, 1] := by decide

end Bourse.Props.C14
