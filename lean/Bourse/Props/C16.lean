/-
C16 — built-in agents emit only valid instructions and never abort a simulation.
Property theorems only. `RandomAgents` is modelled exactly (integers only); for the noise and
momentum agents the theorems cover the integer skeleton: Bernoulli comparisons against a uniform
draw `k / 2^24` (f32) and the tick-grid repair of a clamped sell price. Float sampling and rounding
are exercised on the real agents by the per-run audit, not proved.
-/
import Bourse.Model.Agents
import Bourse.Lemmas.PriceHelpers
import Bourse.Lemmas.F64Prices
import Bourse.Lemmas.FloatAgentsValid

namespace Bourse.Props.C16
open Bourse

/-! ### Uniform draws and the activity corners -/

/-- `gen::<f32>()` is `k / 2^24` with `k < 2^24`: a draw in `[0, 1)`. -/
theorem genF32_lt (g : Xoro) : g.genF32.1 < 16777216 := by
  simp only [Xoro.genF32, Xoro.next32]
  have : (g.next.1.toNat % 4294967296) < 4294967296 := Nat.mod_lt _ (by decide)
  omega

/-- **Probability 0 never happens**: a draw `k/2^24 ≥ 0` is never `< 0/den`. -/
theorem act_p0_never (k den : Nat) : ¬ (k * den < 0 * 16777216) := by simp

/-- **Probability ≥ 1 always happens**: every draw `k/2^24 < 1 ≤ num/den`. -/
theorem act_p1_always (k num den : Nat) (hk : k < 16777216) (hd : 0 < den) (h : den ≤ num) :
    k * den < num * 16777216 := by
  calc k * den < 16777216 * den := Nat.mul_lt_mul_of_pos_right hk hd
    _ ≤ 16777216 * num := Nat.mul_le_mul_left _ h
    _ = num * 16777216 := Nat.mul_comm _ _

/-- With activity rate 0 a random agent does nothing at all: no instruction, environment untouched
(only the generator advances by its one draw). -/
theorem random_rate0_inactive (c : RandomAgents) (n : Nat) (cur : Option Nat) (e : MEnv) (g : Xoro)
    (h0 : c.rateNum = 0) : c.updateOne n cur e g = some (cur, e, g.genF32.2) := by
  simp [RandomAgents.updateOne, h0]

/-! ### `gen_range` stays inside its range -/

theorem accept_lt (range v k : Nat) (hv : v < 4294967296) (hr : 0 < range)
    (h : Xoro.accept range v = some k) : k < range := by
  simp only [Xoro.accept] at h
  split at h
  · injection h with h; subst h
    apply Nat.div_lt_of_lt_mul
    exact Nat.mul_lt_mul_of_pos_right hv hr
  · simp at h

theorem genRange_lt (range fuel : Nat) (g : Xoro) (k : Nat) (g' : Xoro) (hr : 0 < range)
    (h : Xoro.genRange range fuel g = some (k, g')) : k < range := by
  induction fuel generalizing g with
  | zero => simp [Xoro.genRange] at h
  | succ fuel ih =>
    simp only [Xoro.genRange] at h
    split at h
    · rename_i k' hk
      injection h with h; injection h with h1 _; subst h1
      refine accept_lt range g.next32.1 _ ?_ hr hk
      simp only [Xoro.next32]; exact Nat.mod_lt _ (by decide)
    · exact ih _ h

theorem genRangeLoHi_bounds (lo hi : Nat) (g : Xoro) (x : Nat) (g' : Xoro)
    (h : Xoro.genRangeLoHi lo hi g = some (x, g')) : lo ≤ x ∧ x < hi := by
  simp only [Xoro.genRangeLoHi] at h
  split at h
  · simp at h
  · rename_i hlt
    cases hr : Xoro.genRange (hi - lo) Xoro.FUEL g with
    | none => simp [hr] at h
    | some r =>
      obtain ⟨k, g2⟩ := r
      simp [hr] at h
      have := genRange_lt (hi - lo) Xoro.FUEL g k g2 (by omega) hr
      omega

/-! ### What a random agent submits -/

/-- **Every instruction a random agent emits is valid**: it either leaves the environment alone,
or queues a cancellation of the order it holds — which is Active as it looks —, or submits exactly
one limit order whose price is `tick · tick_size` with `tick` inside the configured tick range (so
on the grid), whose volume is inside the configured volume range, carrying its own trader id. -/
theorem random_place_valid (c : RandomAgents) (n : Nat) (e : MEnv) (g : Xoro)
    (o : Option Nat) (e' : MEnv) (g' : Xoro) (h : c.placeRandom n e g = some (o, e', g')) :
    ∃ side tick vol id, c.tickLo ≤ tick ∧ tick < c.tickHi ∧ c.volLo ≤ vol ∧ vol < c.volHi ∧
       e.placeOrder c.asset side vol n (some (tick * c.tickSize)) = (e', .ok id) ∧ o = some id := by
  simp only [RandomAgents.placeRandom] at h
  split at h
  · simp at h
  · rename_i si g1 _
    split at h
    · simp at h
    · rename_i tick g2 ht
      split at h
      · simp at h
      · rename_i vol g3 hv
        split at h
        · rename_i id hp
          simp only [Option.some.injEq, Prod.mk.injEq] at h
          obtain ⟨h1, h2, _⟩ := h
          have bt := genRangeLoHi_bounds _ _ _ _ _ ht
          have bv := genRangeLoHi_bounds _ _ _ _ _ hv
          refine ⟨(if si = 0 then .ask else .bid), tick, vol, id, bt.1, bt.2, bv.1, bv.2, ?_, h1.symm⟩
          rw [← h2, ← hp]
        · simp at h

/-- **Every instruction a random agent emits is valid**: it either leaves the environment alone,
or queues a cancellation of the order it holds — which is Active as it looks —, or — only when the order it
holds is NOT Active as it looks, so that a trader never has two live orders of its own making —
submits exactly one limit order whose price is `tick · tick_size` with `tick` inside the configured
tick range (so on the grid), whose volume is inside the configured volume range, carrying its own
trader id. -/
theorem random_update_valid (c : RandomAgents) (n : Nat) (cur : Option Nat) (e : MEnv) (g : Xoro)
    (o : Option Nat) (e' : MEnv) (g' : Xoro) (h : c.updateOne n cur e g = some (o, e', g')) :
    (e' = e ∧ o = cur) ∨
    (∃ id, cur = some id ∧ RandomAgents.orderStatus e c.asset id = some .active ∧
       e' = e.cancelOrder c.asset id ∧ o = none) ∨
    (RandomAgents.holdsActive e c.asset cur = false ∧
     ∃ side tick vol id, c.tickLo ≤ tick ∧ tick < c.tickHi ∧ c.volLo ≤ vol ∧ vol < c.volHi ∧
       e.placeOrder c.asset side vol n (some (tick * c.tickSize)) = (e', .ok id) ∧ o = some id) := by
  simp only [RandomAgents.updateOne] at h
  split at h
  · split at h
    · rename_i hact
      simp only [Option.some.injEq, Prod.mk.injEq] at h
      obtain ⟨h1, h2, _⟩ := h
      right; left
      cases cur with
      | none => simp [RandomAgents.holdsActive] at hact
      | some id =>
        refine ⟨id, rfl, ?_, by simpa using h2.symm, h1.symm⟩
        simpa [RandomAgents.holdsActive] using hact
    · rename_i hna
      right; right
      exact ⟨by simpa using hna, random_place_valid c n e _ o e' g' h⟩
  · simp only [Option.some.injEq, Prod.mk.injEq] at h
    obtain ⟨h1, h2, _⟩ := h
    left; exact ⟨h2.symm, h1.symm⟩

/-! ### The tick-grid repair of a clamped sell price (`common.rs`, after `round_price_up`) -/

/-- Whatever the float part produced (in particular `Price::MAX`, which is off the grid for most
tick sizes), `price - price % tick` is on the grid, not above the clamped price and less than one
tick below it. -/
theorem sell_price_repair (price tick : Nat) (ht : 0 < tick) :
    (price - price % tick) % tick = 0 ∧ price - price % tick ≤ price ∧ price < price - price % tick + tick := by
  have h1 := Nat.mod_lt price ht
  have h2 := Nat.mod_le price tick
  have h3 : price % tick ≤ price := Nat.mod_le _ _
  refine ⟨?_, Nat.sub_le _ _, by omega⟩
  have : price - price % tick = tick * (price / tick) := by
    have := Nat.div_add_mod price tick
    omega
  rw [this]; exact Nat.mul_mod_right _ _

/-- `Price::MAX = 4294967295 = 3·5·17·257·65537` is off the grid for the tick sizes 2, 4, 6, 7, 8, 9, 10
(the former abort, known finding F-C16-1) and on it for 1, 3, 5. -/
theorem max_price_grid :
    ([1, 2, 3, 4, 5, 6, 7, 8, 9, 10].filter fun t => MAXP % t != 0) = [2, 4, 6, 7, 8, 9, 10] := by decide

/-- Non-vacuity: a random agent with rate 1/2, seed 11 — the model run emits a valid order. -/
example :
    let c : RandomAgents := { asset := 0, orders := [none], tickLo := 8, tickHi := 11, volLo := 4, volHi := 6,
                              tickSize := 2, rateNum := 16, rateDen := 16 }
    let e := MEnv.new 0 [2] 10 true 3
    ((c.updateOne 0 none e (Xoro.seed 11)).map fun r =>
      r.2.1.market.books.map (fun b => b.orders.map (fun x => (x.order.price, x.order.vol, x.order.trader)))) = some [[(16, 4, 0)]] := by
  decide

/-! ### Noise and momentum agents: the limit prices they quote

`place_buy_limit_order` / `place_sell_limit_order` (and their multi-asset twins) in exact
arithmetic (`Model/PriceHelpers.lean`, compared with the real `f64` helpers on dyadic inputs on every
run): whatever the price distribution returns — any finite value of either sign, or `+∞` — -/

/-- a **buy** is quoted on the tick grid, at or below the mid-price the agent observed; -/
theorem buy_price_valid (mid : Rat) (dist : Option Rat) (tick : Nat) (ht : 0 < tick)
    (h0 : 0 ≤ mid) (h1 : mid ≤ (MAXP : Rat)) :
    Helpers.buyPrice mid dist tick % tick = 0 ∧ (Helpers.buyPrice mid dist tick : Rat) ≤ mid :=
  Helpers.buyPrice_valid mid dist tick ht h0 h1

/-- a **sell** is quoted on the tick grid — also when the rounded price was clamped to `Price::MAX`,
which is off the grid for most tick sizes (the former abort) — and at or above the observed
mid-price, for every mid-price at least one tick below `Price::MAX`. -/
theorem sell_price_valid (mid : Rat) (dist : Option Rat) (tick : Nat) (ht : 0 < tick)
    (h0 : 0 ≤ mid) (h1 : mid + (tick : Rat) ≤ (MAXP : Rat)) :
    Helpers.sellPrice mid dist tick % tick = 0 ∧ mid ≤ (Helpers.sellPrice mid dist tick : Rat) :=
  Helpers.sellPrice_valid mid dist tick ht h0 h1

/-- Both are prices a book with that tick size accepts (`create_ok_iff` of C12: a limit order can be
created iff its price is a multiple of the tick), so the agents' `unwrap()` of the placement result
cannot abort the simulation. -/
theorem quoted_prices_accepted (mid : Rat) (dist : Option Rat) (tick : Nat) (ht : 0 < tick)
    (h0 : 0 ≤ mid) (h1 : mid ≤ (MAXP : Rat)) (b : Book) (hb : b.tick = tick) (vol tr : Nat) :
    (∃ id, (b.createOrder .bid vol tr (some (Helpers.buyPrice mid dist tick))).2 = .ok id) ∧
    (∃ id, (b.createOrder .ask vol tr (some (Helpers.sellPrice mid dist tick))).2 = .ok id) := by
  have hbuy := (Helpers.buyPrice_valid mid dist tick ht h0 h1).1
  have hsell : Helpers.sellPrice mid dist tick % tick = 0 := by
    simp only [Helpers.sellPrice]
    have := Nat.mod_add_div (Helpers.roundPriceUp (dist.map fun d => mid + Helpers.absR d) tick) tick
    have h2 : ∀ p : Nat, p - p % tick = tick * (p / tick) := by
      intro p; have := Nat.mod_add_div p tick; omega
    rw [h2]; exact Nat.mul_mod_right _ _
  constructor
  · refine ⟨b.orders.length, ?_⟩
    simp [Book.createOrder, hb, hbuy]
  · refine ⟨b.orders.length, ?_⟩
    simp [Book.createOrder, hb, hsell]

/-- Concrete instances (kernel evaluation), including the unit tests of `common.rs` and the clamp at
both ends: tick 2, mid 100.5. -/
example :
    Helpers.roundPriceUp (some 5) 2 = 6 ∧ Helpers.roundPriceUp (some (21/10)) 2 = 4 ∧
    Helpers.roundPriceDown (some (39/10)) 4 = 0 ∧ Helpers.roundPriceDown (some (-22/10)) 4 = 0 ∧
    Helpers.roundPriceUp (some (4294967297 : Rat)) 4 = 4294967295 ∧
    Helpers.buyPrice (201/2) (some (7/4)) 2 = 98 ∧ Helpers.sellPrice (201/2) (some (7/4)) 2 = 104 ∧
    Helpers.buyPrice (201/2) (some 1000) 2 = 0 ∧ Helpers.sellPrice (201/2) none 2 = 4294967294 ∧
    Helpers.sellPrice (201/2) (some 5000000000) 7 = 4294967292 := by decide +kernel

/-! ### The same quotes in the arithmetic the Rust code performs: correctly rounded binary64

`Model/F64.lean` models `f64` (`rnd` = round to nearest, ties to even, 53-bit significand, subnormals,
overflow to infinity; compared with the hardware on every run) and `Model/FloatAgents.lean` the helpers
of `common.rs` over it. The mid-price an agent observes is a half-integer `k/2` with `k ≤ 2·Price::MAX`
(`bid + 0.5·(ask − bid)` of `u32` touch prices, exact in `f64`). -/

/-- The rounding function is monotone, -/
theorem f64_rounding_monotone {x y : Rat} (h : x ≤ y) : F64.le (F64.rnd x) (F64.rnd y) := F64.rnd_mono h

/-- fixes half-integers below `2^53` (every mid-price and every price), -/
theorem f64_half_integers_exact (k : Nat) (hk : k < 9007199254740992) :
    F64.rnd ((k : Rat) / 2) = .fin ((k : Rat) / 2) := F64.rnd_half k hk

/-- and in the normal range is within relative distance `2^-53` of the exact value. -/
theorem f64_rounding_error {x : Rat} (hx : 0 < x) (hlo : F64.pow2 (-1022) ≤ x) (hhi : x < F64.pow2 1023) :
    ∃ y : Rat, F64.rnd x = .fin y ∧ |y - x| ≤ x * F64.pow2 (-53) := F64.rnd_err hx hlo hhi

/-- **Buy quotes, in `f64`**: for EVERY sample `d` of the price distribution (finite of either sign,
infinite, NaN), every tick size and every observed mid-price `k/2 ∈ [0, Price::MAX]`, the price
`place_buy_limit_order(_market)` computes in binary64 is on the tick grid and at or below the mid. -/
theorem buy_price_valid_f64 (k t : Nat) (ht : 0 < t) (htm : t ≤ 4294967295) (hk : k ≤ 8589934590) (d : F) :
    FAgents.buyPrice (.fin ((k : Rat) / 2)) d t % t = 0 ∧
    (FAgents.buyPrice (.fin ((k : Rat) / 2)) d t : Rat) ≤ (k : Rat) / 2 :=
  FAgents.buyPrice_valid k t ht htm hk d

/-- **Sell quotes, in `f64`**: for every non-NaN sample, every tick size and every observed mid-price
at least one tick below `Price::MAX`, the price `place_sell_limit_order(_market)` computes in binary64
(with the grid repair after the clamp) is on the tick grid and at or above the mid. -/
theorem sell_price_valid_f64 (k t : Nat) (ht : 0 < t) (htm : t ≤ 4294967295) (hk : k + 2 * t ≤ 8589934590)
    (d : F) (hd : d ≠ .nan) :
    FAgents.sellPrice (.fin ((k : Rat) / 2)) d t % t = 0 ∧
    (k : Rat) / 2 ≤ (FAgents.sellPrice (.fin ((k : Rat) / 2)) d t : Rat) :=
  FAgents.sellPrice_valid k t ht htm hk d hd

/-- A sell quote is on the grid for every sample whatsoever, so the `unwrap()` of its placement never
aborts. -/
theorem sell_price_on_grid_f64 (mid d : F) (t : Nat) : FAgents.sellPrice mid d t % t = 0 :=
  FAgents.sellPrice_grid mid d t

/-- Concrete `f64` instances by kernel evaluation: tick 2, mid 100.5; a sample that is not dyadic
(0.1 = 0x3FB999999999999A), the clamp at both ends, NaN. -/
example :
    FAgents.buyPrice (.fin (201/2)) (F64.ofBits 0x3FB999999999999A) 2 = 100 ∧
    FAgents.sellPrice (.fin (201/2)) (F64.ofBits 0x3FB999999999999A) 2 = 102 ∧
    FAgents.buyPrice (.fin (201/2)) .pinf 2 = 0 ∧ FAgents.sellPrice (.fin (201/2)) .pinf 2 = 4294967294 ∧
    FAgents.buyPrice (.fin (201/2)) .nan 2 = 0 ∧
    F64.add (F64.ofBits 0x3FB999999999999A) (F64.ofBits 0x3FC999999999999A) = F64.ofBits 0x3FD3333333333334 := by
  decide +kernel

/-! ### Whole updates of the noise and momentum agents

`Model/FloatAgents.lean` models `NoiseAgent(Market)::update` and `MomentumAgent(Market)::update` in full
(cancellation pass with its `f32` draws, the trader loop, the `f64` prices); the correspondence check
requires it to predict every real update exactly. `LogNormal::sample` is an arbitrary function `smp` of
the generator state, `tanh` an arbitrary function `th`: the theorems hold for all of them. -/

/-- **Every instruction a noise agent submits is valid.** -/
theorem noise_update_valid (c : FAgents.NoiseP) (smp : FAgents.Sampler) (orders : List Nat) (e : MEnv) (g : Xoro)
    (b : Book) (hb : e.market.books[c.asset]? = some b) (hq : FAgents.QuoteOk b.mid2 c.tick smp)
    {live' e' g'} (h : FAgents.noiseUpdate c smp orders e g = some (live', e', g')) :
    FAgents.Reach c.asset c.tick c.vol c.traders ((b.mid2 : Rat) / 2) orders true true e e' :=
  FAgents.noiseUpdate_reach c smp orders e g b hb hq h

/-- **Every instruction a momentum agent submits is valid**, buys only while `0 < M`, sells only
while `M < 0`. -/
theorem momentum_update_valid (c : FAgents.MomP) (smp : FAgents.Sampler) (th : F → F) (s : FAgents.MomState) (e : MEnv) (g : Xoro)
    (b : Book) (hb : e.market.books[c.asset]? = some b) (hq : FAgents.QuoteOk b.mid2 c.tick smp)
    {s' e' g'} (h : FAgents.momUpdate c smp th s e g = some (s', e', g')) :
    FAgents.Reach c.asset c.tick c.vol c.traders ((b.mid2 : Rat) / 2) s.orders
      (F64.lt (.fin 0) (FAgents.signal c th s (.fin ((b.mid2 : Rat) / 2))).1)
      (F64.lt (FAgents.signal c th s (.fin ((b.mid2 : Rat) / 2))).1 (.fin 0)) e e' :=
  (FAgents.momUpdate_reach c smp th s e g b hb hq h).1

/-- **Neither agent ever aborts the simulation** when it is consistent with the environment (its
asset exists with its tick size; the orders it tracks exist) — for every sampler, NaN and infinities
included, every `tanh`, every probability / decay / demand / scale / ratio, every generator state. -/
theorem noise_update_never_aborts (c : FAgents.NoiseP) (smp : FAgents.Sampler) (orders : List Nat) (e : MEnv) (g : Xoro)
    (b : Book) (hb : e.market.books[c.asset]? = some b) (ht : b.tick = c.tick) (hpos : 0 < c.tick) (hu32 : c.tick ≤ 4294967295)
    (hmid : b.mid2 ≤ 8589934590) (htracked : ∀ id ∈ orders, id < b.orders.length) :
    ∃ r, FAgents.noiseUpdate c smp orders e g = some r :=
  FAgents.noiseUpdate_ok c smp orders e g b hb ht hpos hu32 hmid htracked

theorem momentum_update_never_aborts (c : FAgents.MomP) (smp : FAgents.Sampler) (th : F → F) (s : FAgents.MomState) (e : MEnv) (g : Xoro)
    (b : Book) (hb : e.market.books[c.asset]? = some b) (ht : b.tick = c.tick) (hpos : 0 < c.tick) (hu32 : c.tick ≤ 4294967295)
    (hmid : b.mid2 ≤ 8589934590) (htracked : ∀ id ∈ s.orders, id < b.orders.length) :
    ∃ r, FAgents.momUpdate c smp th s e g = some r :=
  FAgents.momUpdate_ok c smp th s e g b hb ht hpos hu32 hmid htracked

/-- The activity corners for the uniform draws these agents use (`f32` and `f64`, both in `[0, 1)`):
a probability that is not positive never acts, one that is at least 1 always acts. -/
theorem float_draws_in_unit_interval (g : Xoro) :
    (∃ q : Rat, (FAgents.genF32 g).1 = .fin q ∧ 0 ≤ q ∧ q < 1) ∧ (∃ q : Rat, (FAgents.genF64 g).1 = .fin q ∧ 0 ≤ q ∧ q < 1) :=
  ⟨FAgents.genF32_range g, FAgents.genF64_range g⟩

theorem probability_0_never_acts (q : Rat) (hq : 0 ≤ q) (p : F) (hp : F64.lt (.fin 0) p = false) : F64.lt (.fin q) p = false :=
  FAgents.draw_not_below_nonpos q hq p hp

theorem probability_1_always_acts (q : Rat) (hq : q < 1) (p : F) (hp : FAgents.ge p (.fin 1) = true) : F64.lt (.fin q) p = true :=
  FAgents.draw_below_ge_one q hq p hp

/-- Non-vacuity: a noise agent (p_limit = 1, p_market = 0, p_cancel = 0; two traders; tick 2) on a book
with mid 100.5 and a sampler returning 7/4: the update succeeds, places two limit orders on the grid on
the right side of the mid, and the hypotheses `QuoteOk` of the theorems hold. -/
def exEnv : MEnv :=
  let e := MEnv.new 0 [2] 10 true 3
  let e := (e.placeOrder 0 .bid 5 9 (some 100)).1
  let e := (e.placeOrder 0 .ask 5 9 (some 102)).1
  (e.step (Xoro.seed 1)).1
def exNoise : FAgents.NoiseP := { asset := 0, tick := 2, vol := 3, traders := [7, 8], pLimit := .fin 1, pMarket := .fin 0, pCancel := .fin 0 }
def exSmp : FAgents.Sampler := fun g => (.fin (7/4), g)

example :
    ((FAgents.noiseUpdate exNoise exSmp [] exEnv (Xoro.seed 5)).map fun r =>
      (r.1, (r.2.1.market.books.map fun b => (b.orders.drop 2).map fun x =>
        [(if x.order.side = .bid then 1 else 0), x.order.price, x.order.vol, x.order.trader]))) =
      some ([2, 3], [[[0, 104, 3, 7], [1, 98, 3, 8]]]) ∧
    (exEnv.market.books.map (·.mid2)) = [202] := by
  decide +kernel

end Bourse.Props.C16
