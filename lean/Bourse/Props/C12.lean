/-
C12 — every resting price is on the tick grid; rejected creations leave no trace.
-/
import Bourse.Model.Ops
import Bourse.Lemmas.Grid

namespace Bourse.Props.C12
open Bourse

/-- A limit order can be created iff its price is a multiple of the tick size (both sides). -/
theorem create_ok_iff (b : Book) (sd : Side) (vol tr p : Nat) :
    (b.createOrder sd vol tr (some p)).2 = .ok b.orders.length ↔ p % b.tick = 0 := by
  by_cases h : p % b.tick = 0 <;> simp [Book.createOrder, h]

/-- A market order can always be created. -/
theorem create_market_ok (b : Book) (sd : Side) (vol tr : Nat) :
    (b.createOrder sd vol tr none).2 = .ok b.orders.length := by
  simp [Book.createOrder]

/-- A rejected creation reports the offending price and tick size and changes nothing:
the whole model state is identical, so no id is consumed and no view differs. -/
theorem create_err_unchanged (b : Book) (sd : Side) (vol tr : Nat) (p : Option Nat) (q t : Nat)
    (h : (b.createOrder sd vol tr p).2 = .priceError q t) :
    (b.createOrder sd vol tr p).1 = b ∧ p = some q ∧ t = b.tick ∧ q % b.tick ≠ 0 := by
  cases p with
  | none => simp [Book.createOrder] at h
  | some p =>
    by_cases hp : p % b.tick = 0
    · simp [Book.createOrder, hp] at h
    · simp [Book.createOrder, hp] at h ⊢
      obtain ⟨rfl, rfl⟩ := h
      exact ⟨rfl, rfl, hp⟩

/-- The same through `create_and_place_order`: nothing is placed when creation is rejected. -/
theorem createAndPlace_err_unchanged (b : Book) (sd : Side) (vol tr : Nat) (p : Option Nat) (q t : Nat)
    (h : (b.createAndPlace sd vol tr p).2 = .priceError q t) :
    (b.createAndPlace sd vol tr p).1 = b := by
  unfold Book.createAndPlace at h ⊢
  split at h
  · simp at h
  · rename_i q' t' hc
    have := create_err_unchanged b sd vol tr p q' t' hc
    simp [this.1]

/-- A modification that asks for an off-grid price is ignored entirely. -/
theorem modify_offgrid_ignored (b : Book) (id p : Nat) (v : Option Nat) (e : Entry)
    (h : b.orders[id]? = some e) (hp : p % b.tick ≠ 0) : b.modifyOrder id (some p) v = b := by
  simp [Book.modifyOrder, h, Book.offGrid, hp]

/-- **Every price in the book is on the tick grid, also after any modification**: from a new book,
after ANY sequence of operations — arbitrary creation prices on and off the grid, arbitrary modify
prices, any ids and volumes, no validity hypothesis whatsoever — every order in the table is a
market order or has a price that is a multiple of the tick size. -/
theorem prices_on_grid_always (t0 tick : Nat) (trading : Bool) (ops : List Op) :
    ∀ e ∈ ((Book.new t0 tick trading).run ops).orders, Book.isMarket e.order = true ∨ e.order.price % tick = 0 := by
  have h0 : Grid (Book.new t0 tick trading) := by intro e he; simp [Book.new] at he
  have h := grid_run _ ops h0
  have ht : ((Book.new t0 tick trading).run ops).tick = tick := run_tick _ ops
  intro e he
  have := h e he
  rw [ht] at this
  exact this

/-- Non-vacuity: tick 2, an off-grid creation is rejected and an off-grid modification ignored
while on-grid ones succeed. -/
example :
    let b0 := Book.new 0 2 true
    let r1 := b0.createAndPlace .ask 5 1 (some 50)
    let r2 := r1.1.createAndPlace .ask 7 1 (some 51)
    r1.2 = .ok 0 ∧ r2.2 = .priceError 51 2 ∧ r2.1 = r1.1 ∧
      r1.1.modifyOrder 0 (some 51) none = r1.1 ∧
      ((r1.1.modifyOrder 0 (some 52) none).orders.map (·.order.price)) = [52] := by decide

end Bourse.Props.C12
