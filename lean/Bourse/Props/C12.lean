/-
C12 — every resting price is on the tick grid; rejected creations leave no trace.
-/
import Bourse.Model.Ops
import Bourse.Lemmas.Grid
import Bourse.Lemmas.ViewsCorrect
import Bourse.Lemmas.RestGrid

namespace Bourse.Props.C12
open Bourse

/-- A limit order can be created iff its price is a multiple of the tick size (both sides). -/
theorem create_ok_iff (b : Book) (sd : Side) (vol tr p : Nat) :
    (b.createOrder sd vol tr (some p)).2 = .ok b.orders.length ↔ p % b.tick = 0 := by
  by_cases h : p % b.tick = 0 <;> simp [Book.createOrder, h]

/-- A market order can always be created. -/
theorem create_market_ok (b : Book) (sd : Side) (vol tr : Nat) :
    (b.createOrder sd vol tr none).2 = .ok b.orders.length := by
  simp [Book.createOrder]

/-- A rejected creation reports the offending price and tick size and changes nothing:
the whole model state is identical, so no id is consumed and no view differs. -/
theorem create_err_unchanged (b : Book) (sd : Side) (vol tr : Nat) (p : Option Nat) (q t : Nat)
    (h : (b.createOrder sd vol tr p).2 = .priceError q t) :
    (b.createOrder sd vol tr p).1 = b ∧ p = some q ∧ t = b.tick ∧ q % b.tick ≠ 0 := by
  cases p with
  | none => simp [Book.createOrder] at h
  | some p =>
    by_cases hp : p % b.tick = 0
    · simp [Book.createOrder, hp] at h
    · simp [Book.createOrder, hp] at h ⊢
      obtain ⟨rfl, rfl⟩ := h
      exact ⟨rfl, rfl, hp⟩

/-- The same through `create_and_place_order`: nothing is placed when creation is rejected. -/
theorem createAndPlace_err_unchanged (b : Book) (sd : Side) (vol tr : Nat) (p : Option Nat) (q t : Nat)
    (h : (b.createAndPlace sd vol tr p).2 = .priceError q t) :
    (b.createAndPlace sd vol tr p).1 = b := by
  unfold Book.createAndPlace at h ⊢
  split at h
  · simp at h
  · rename_i q' t' hc
    have := create_err_unchanged b sd vol tr p q' t' hc
    simp [this.1]

/-- A modification that asks for an off-grid price is ignored entirely. -/
theorem modify_offgrid_ignored (b : Book) (id p : Nat) (v : Option Nat) (e : Entry)
    (h : b.orders[id]? = some e) (hp : p % b.tick ≠ 0) : b.modifyOrder id (some p) v = b := by
  simp [Book.modifyOrder, h, Book.offGrid, hp]

/-- **Every price in the book is on the tick grid, also after any modification**: from a new book,
after ANY sequence of operations — arbitrary creation prices on and off the grid, arbitrary modify
prices, any ids and volumes, no validity hypothesis whatsoever — every order in the table is a
market order or has a price that is a multiple of the tick size. -/
theorem prices_on_grid_always (t0 tick : Nat) (trading : Bool) (ops : List Op) :
    ∀ e ∈ ((Book.new t0 tick trading).run ops).orders, Book.isMarket e.order = true ∨ e.order.price % tick = 0 := by
  have h0 : Grid (Book.new t0 tick trading) := by intro e he; simp [Book.new] at he
  have h := grid_run _ ops h0
  have ht : ((Book.new t0 tick trading).run ops).tick = tick := run_tick _ ops
  intro e he
  have := h e he
  rw [ht] at this
  exact this

/-- Non-vacuity: tick 2, an off-grid creation is rejected and an off-grid modification ignored
while on-grid ones succeed. -/
example :
    let b0 := Book.new 0 2 true
    let r1 := b0.createAndPlace .ask 5 1 (some 50)
    let r2 := r1.1.createAndPlace .ask 7 1 (some 51)
    r1.2 = .ok 0 ∧ r2.2 = .priceError 51 2 ∧ r2.1 = r1.1 ∧
      r1.1.modifyOrder 0 (some 51) none = r1.1 ∧
      ((r1.1.modifyOrder 0 (some 52) none).orders.map (·.order.price)) = [52] := by decide

/-- **Every resting order has a grid price** (stronger than `prices_on_grid_always` for the orders
that matter to the level data: a market order carries a sentinel price, which need not be a multiple
of the tick size, but it never rests). -/
theorem resting_prices_on_grid (t0 tick : Nat) (trading : Bool) (ht : 0 < tick) (ops : List Op)
    (hv : ∀ op ∈ ops, ValidOp op) (hnf : NoFault (Book.new t0 tick trading) ops) (sd : Side) :
    ∀ o ∈ Views.resting (((Book.new t0 tick trading).run ops).orders.map (·.order)) sd,
      o.price % tick = 0 ∧ o.price ≤ MAXP :=
  resting_on_grid t0 tick trading ht ops hv hnf sd

/-- **The published per-level data accounts for all resting volume within its range**: in every
reachable state the volumes of the `n` published levels of a side add up to exactly the resting
volume of that side priced within `n` ticks of the touch — no resting order in range is missed by the
level queries (they start at the touch and step by exactly one tick; every resting price is on that
grid) and none is counted twice. -/
theorem levels_account_for_resting_volume (t0 tick : Nat) (trading : Bool) (ht : 0 < tick) (ops : List Op)
    (hv : ∀ op ∈ ops, ValidOp op) (hnf : NoFault (Book.new t0 tick trading) ops) (n : Nat)
    (hn : ∀ i, i < n → i * tick < P32) :
    let b := (Book.new t0 tick trading).run ops
    let os := b.orders.map (·.order)
    ((b.bidLevels n).map (·.1)).sum = Views.volWithin os tick .bid n ∧
    ((b.askLevels n).map (·.1)).sum = Views.volWithin os tick .ask n := by
  intro b os
  have h := inv_reachable t0 tick trading ht ops hv hnf
  have htick : b.tick = tick := run_tick _ ops
  obtain ⟨_, _, _, _, _, hb, ha, _⟩ := views_correct h n (by rw [htick]; exact hn)
  rw [htick] at hb ha
  rw [hb, ha]
  exact ⟨Views.bid_levels_account ht (resting_on_grid t0 tick trading ht ops hv hnf .bid) n,
         Views.ask_levels_account ht (resting_on_grid t0 tick trading ht ops hv hnf .ask) n⟩

/-- Non-vacuity: tick 5, three bid levels in range and one beyond; two published levels hold 7 + 4,
three hold all 7 + 4 + 2 within 3 ticks; the bid 20 ticks away is out of range of both. -/
example :
    let b := (Book.new 0 5 true).run [.cap .bid 7 1 (some 100), .cap .bid 4 1 (some 95), .cap .bid 2 1 (some 90),
      .cap .bid 9 1 (some 0), .cap .ask 3 2 (some 110)]
    (b.bidLevels 2).map (·.1) = [7, 4] ∧ Views.volWithin (b.orders.map (·.order)) 5 .bid 2 = 11 ∧
    Views.volWithin (b.orders.map (·.order)) 5 .bid 3 = 13 ∧ ((b.bidLevels 3).map (·.1)).sum = 13 := by decide

end Bourse.Props.C12
