/-
C18 — the Python classes are transparent views of the Rust core.
Property theorems only, over the binding / encoding / layout tables TRANSLATED from rust/src/*.rs and
crates/order_book/src/types.rs on every run (`Generated/PyLayer.lean`), plus the generic lifting
lemmas. The real extension is driven under CPython against the Rust core on every run (the tie).
-/
import Bourse.Generated.PyLayer

namespace Bourse.Props.C18
open Bourse.Generated.Py

/-- **Statuses are encoded 0 New, 1 Active, 2 Filled, 3 Cancelled, 4 Rejected**, as documented. -/
theorem status_encoding_documented :
    statusToU8 = [("Status::New", "0"), ("Status::Active", "1"), ("Status::Filled", "2"),
                  ("Status::Cancelled", "3"), ("Status::Rejected", "4")] := by decide

/-- **Sides are encoded True = bid**, in both directions, and the two conversions are inverse. -/
theorem side_bool_roundtrip :
    sideToBool = [("Side::Bid", "true"), ("Side::Ask", "false")] ∧
    boolToSide = [("true", "Self::Bid"), ("false", "Self::Ask")] := by decide

/-- Order and trade records are the documented tuples: field k of the tuple is the k-th documented
field (side, status, arrival, end, remaining volume, starting volume, price, trader, id / time, side,
price, volume, aggressive id, passive id), for all three classes that return them. -/
theorem tuple_layouts_documented :
    castOrder = ["order.side.into()", "order.status.into()", "order.arr_time", "order.end_time", "order.vol",
                 "order.start_vol", "order.price", "order.trader_id", "order.order_id"] ∧
    castTrade = ["trade.t", "trade.side.into()", "trade.price", "trade.vol", "trade.active_order_id",
                 "trade.passive_order_id"] ∧
    orderBook_get_orders_doc = stepEnv_get_orders_doc ∧ stepEnv_get_orders_doc = stepEnvNumpy_get_orders_doc ∧
    orderBook_get_orders_doc = ["side (``True`` indicates bid-side)", "status of the order", "arrival time of the order",
      "end time of the order", "Remaining volume of the order", "Starting volume of the order", "Price of the order",
      "Id of the trader/agent who placed the order", "Id of the order"] ∧
    orderBook_get_trades_doc = stepEnv_get_trades_doc ∧
    orderBook_get_trades_doc = ["Trade time", "Side flag (``True`` for bid side)", "Trade price", "Trade volume",
      "Id of the aggressive order", "Id of the passive order"] := by decide

/-- The binding table the model assumes for `bourse.core.OrderBook`: every Python method is
`encode ∘ (one call of the Rust core with the arguments passed through) ∘ decode`; in particular
every bid getter returns the core's bid quantity and every ask getter the ask quantity. -/
def orderBookBindings : List (String × String) := [("new", "letinner=BaseOrderBook::new(start_time,tick_size,trading);Ok(Self(inner))"), ("set_time", "self.0.set_time(t);"), ("enable_trading", "self.0.enable_trading();"), ("disable_trading", "self.0.disable_trading();"), ("ask_vol", "self.0.ask_vol()"), ("best_ask_vol", "self.0.ask_best_vol()"), ("best_ask_vol_and_orders", "self.0.ask_best_vol_and_orders()"), ("bid_vol", "self.0.bid_vol()"), ("best_bid_vol", "self.0.bid_best_vol()"), ("best_bid_vol_and_orders", "self.0.bid_best_vol_and_orders()"), ("bid_ask", "self.0.bid_ask()"), ("order_status", "self.0.order(order_id).status.into()"), ("place_order", "letside=matchbid{true=>Side::Bid,false=>Side::Ask,};letorder_id=self.0.create_and_place_order(side,vol,trader_id,price);matchorder_id{Ok(i)=>Ok(i),Err(e)=>Err(PyValueError::new_err(e.to_string())),}"), ("cancel_order", "self.0.cancel_order(order_id);"), ("modify_order", "self.0.modify_order(order_id,new_price,new_vol);"), ("get_trades", "self.0.get_trades().iter().map(types::cast_trade).collect()"), ("get_orders", "self.0.get_orders().into_iter().map(types::cast_order).collect()"), ("save_json_snapshot", "self.0.save_json(path,pretty)?;Ok(())")]

/-- … and for `bourse.core.StepEnv`: getters read the cached level-2 snapshot (bid from bid fields,
ask from ask fields, touch = level 0), the clock and traded volume come from the live book,
mutators forward to the environment, `step` uses the environment's own seeded generator. -/
def stepEnvBindings : List (String × String) := [("new", "letenv=BaseEnv::new(start_time,tick_size,step_size,trading);letrng=Xoroshiro128StarStar::seed_from_u64(seed);Ok(Self{env,rng})"), ("time", "self.env.get_orderbook().get_time()"), ("ask_vol", "self.env.level_2_data().ask_vol"), ("best_ask_vol", "self.env.level_2_data().ask_price_levels[0].0"), ("best_ask_vol_and_orders", "self.env.level_2_data().ask_price_levels[0]"), ("bid_vol", "self.env.level_2_data().bid_vol"), ("best_bid_vol", "self.env.level_2_data().bid_price_levels[0].0"), ("best_bid_vol_and_orders", "self.env.level_2_data().bid_price_levels[0]"), ("trade_vol", "self.env.get_orderbook().get_trade_vol()"), ("bid_ask", "(self.env.level_2_data().bid_price,self.env.level_2_data().ask_price,)"), ("order_status", "self.env.get_orderbook().order(order_id).status.into()"), ("enable_trading", "self.env.enable_trading();"), ("disable_trading", "self.env.disable_trading();"), ("step", "self.env.step(&mutself.rng);Ok(())"), ("place_order", "letside=matchbid{true=>Side::Bid,false=>Side::Ask,};letorder_id=self.env.place_order(side,vol,trader_id,price);matchorder_id{Ok(i)=>Ok(i),Err(e)=>Err(PyValueError::new_err(e.to_string())),}"), ("cancel_order", "self.env.cancel_order(order_id);Ok(())"), ("modify_order", "self.env.modify_order(order_id,new_price,new_vol);Ok(())"), ("get_prices", "letprices=self.env.get_prices();(prices.0.to_pyarray(py),prices.1.to_pyarray(py))"), ("get_volumes", "letvolumes=self.env.get_volumes();(volumes.0.to_pyarray(py),volumes.1.to_pyarray(py))"), ("get_touch_volumes", "lettouch_volumes=self.env.get_touch_volumes();(touch_volumes.0.to_pyarray(py),touch_volumes.1.to_pyarray(py),)"), ("get_touch_order_counts", "lettouch_order_counts=self.env.get_touch_order_counts();(touch_order_counts.0.to_pyarray(py),touch_order_counts.1.to_pyarray(py),)"), ("level_1_data_array", "letdata=self.env.level_2_data();letdata_vec=[self.env.get_orderbook().get_trade_vol(),data.bid_price,data.ask_price,data.bid_vol,data.ask_vol,data.bid_price_levels[0].0,data.bid_price_levels[0].1,data.ask_price_levels[0].0,data.ask_price_levels[0].1,];data_vec.to_pyarray(py)"), ("level_2_data_array", "letdata=self.env.level_2_data();letmutdata_vec=vec![self.env.get_orderbook().get_trade_vol(),data.bid_price,data.ask_price,data.bid_vol,data.ask_vol,];foriin0..10{data_vec.push(data.bid_price_levels[i].0);data_vec.push(data.bid_price_levels[i].1);data_vec.push(data.ask_price_levels[i].0);data_vec.push(data.ask_price_levels[i].1);}data_vec.to_pyarray(py)"), ("get_trade_volumes", "self.env.get_trade_vols().to_pyarray(py)"), ("get_orders", "self.env.get_orders().into_iter().map(cast_order).collect()"), ("get_trades", "self.env.get_trades().iter().map(cast_trade).collect()"), ("get_market_data", "letdata=self.env.get_level_2_data_history();lettrade_volumes=self.get_trade_volumes(py);letbid_vols:[(String,&'aPyArray1<u32>);10]=array::from_fn(|i|{(format!(\"bid_vol_{i}\"),data.volumes_at_levels.0[i].to_pyarray(py),)});letask_vols:[(String,&'aPyArray1<u32>);10]=array::from_fn(|i|{(format!(\"ask_vol_{i}\"),data.volumes_at_levels.1[i].to_pyarray(py),)});letbid_orders:[(String,&'aPyArray1<u32>);10]=array::from_fn(|i|{(format!(\"n_bid_{i}\"),data.orders_at_levels.0[i].to_pyarray(py),)});letask_orders:[(String,&'aPyArray1<u32>);10]=array::from_fn(|i|{(format!(\"n_ask_{i}\"),data.orders_at_levels.1[i].to_pyarray(py),)});letmutpy_data=HashMap::from([(\"bid_price\".to_string(),data.prices.0.to_pyarray(py)),(\"ask_price\".to_string(),data.prices.1.to_pyarray(py)),(\"bid_vol\".to_string(),data.volumes.0.to_pyarray(py)),(\"ask_vol\".to_string(),data.volumes.1.to_pyarray(py)),(\"trade_vol\".to_string(),trade_volumes),]);py_data.extend(bid_vols);py_data.extend(ask_vols);py_data.extend(bid_orders);py_data.extend(ask_orders);py_data")]

/-- **The bindings in the source (translated on this run) are the transparent ones.** -/
theorem bindings_transparent :
    orderBook_methods = orderBookBindings ∧ stepEnv_methods = stepEnvBindings := ⟨rfl, rfl⟩

/-! ### Lifting: transparent methods give transparent runs -/

/-- If every Python method is `encode` of the core's result on the same state, then any call
sequence yields exactly the encoded values of the core run, and the same final state. -/
theorem py_run_eq_core_run {S Op R PR : Type} (core : S → Op → S × R) (enc : R → PR) (s : S) (ops : List Op) :
    (ops.foldl (fun (acc : S × List PR) op => ((core acc.1 op).1, acc.2 ++ [enc (core acc.1 op).2])) (s, [])) =
    ((ops.foldl (fun (acc : S × List R) op => ((core acc.1 op).1, acc.2 ++ [(core acc.1 op).2])) (s, [])).1,
     (ops.foldl (fun (acc : S × List R) op => ((core acc.1 op).1, acc.2 ++ [(core acc.1 op).2])) (s, [])).2.map enc) := by
  have gen : ∀ (s : S) (pre : List R),
      (ops.foldl (fun (acc : S × List PR) op => ((core acc.1 op).1, acc.2 ++ [enc (core acc.1 op).2])) (s, pre.map enc)) =
      ((ops.foldl (fun (acc : S × List R) op => ((core acc.1 op).1, acc.2 ++ [(core acc.1 op).2])) (s, pre)).1,
       (ops.foldl (fun (acc : S × List R) op => ((core acc.1 op).1, acc.2 ++ [(core acc.1 op).2])) (s, pre)).2.map enc) := by
    induction ops with
    | nil => intro s pre; rfl
    | cons op ops ih =>
      intro s pre
      simp only [List.foldl_cons]
      have := ih (core s op).1 (pre ++ [(core s op).2])
      simpa [List.map_append] using this
  simpa using gen s []

/-- Argument conversion happens before the core is touched: a call whose integer argument is out
of range (decode fails → OverflowError) or whose price is rejected by the core (→ ValueError, core
state unchanged by C12) leaves the object unchanged. -/
theorem py_error_unchanged {S Raw Args R : Type} (decode : Raw → Option Args) (core : S → Args → S × Option R)
    (hcore : ∀ s a, (core s a).2 = none → (core s a).1 = s) (s : S) (raw : Raw) :
    let call : S × Option R := match decode raw with
      | none => (s, none)
      | some a => core s a
    call.2 = none → call.1 = s := by
  intro call h
  simp only [call] at h ⊢
  cases hd : decode raw with
  | none => rfl
  | some a => simp only [hd] at h ⊢; exact hcore s a h

/-- Non-vacuity of the lifting lemma: a two-call run of a toy core. -/
example : (([1, 2] : List Nat).foldl (fun (acc : Nat × List String) op => ((acc.1 + op, acc.1 * op)).1 |> fun s' => (s', acc.2 ++ [toString (acc.1 * op)])) (5, [])).1 = 8 := by
  decide

end Bourse.Props.C18
