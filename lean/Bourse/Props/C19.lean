/-
C19 — Python-facing arrays, dictionaries and data frames are laid out as documented.
Property theorems only, over the layouts TRANSLATED from rust/src/step_sim.rs,
rust/src/step_sim_numpy.rs, src/bourse/data_processing.py and base_agent.py on every run.
-/
import Bourse.Generated.PyLayer

namespace Bourse.Props.C19
open Bourse.Generated.Py

/-- The quantities an observation array can hold. `lvl = none` stands for the loop variable
(level `n`), `some 0` for the touch. -/
inductive Field where
  | tradeVol | bidPrice | askPrice | bidVol | askVol
  | bidLevelVol (lvl : Option Nat) | bidLevelOrders (lvl : Option Nat)
  | askLevelVol (lvl : Option Nat) | askLevelOrders (lvl : Option Nat)
  deriving DecidableEq, Repr

/-- What a documentation row says the element is. -/
def docField : String → Option Field
  | "Trade volume (in the last step)" => some .tradeVol
  | "Bid touch price" => some .bidPrice
  | "Ask touch price" => some .askPrice
  | "Bid total volume" => some .bidVol
  | "Ask total volume" => some .askVol
  | "Bid touch volume" => some (.bidLevelVol (some 0))
  | "Number of buy orders at touch" => some (.bidLevelOrders (some 0))
  | "Ask touch volume" => some (.askLevelVol (some 0))
  | "Number of sell orders at touch" => some (.askLevelOrders (some 0))
  | "Bid volume at level n" => some (.bidLevelVol none)
  | "Number of buy orders at level n" => some (.bidLevelOrders none)
  | "Ask volume at level n" => some (.askLevelVol none)
  | "Number of sell orders at level n" => some (.askLevelOrders none)
  | "Bid volume at level" => some (.bidLevelVol none)
  | "Number of buy orders at level" => some (.bidLevelOrders none)
  | "Ask volume at level" => some (.askLevelVol none)
  | "Number of sell orders at level" => some (.askLevelOrders none)
  | _ => none

/-- What an element expression of the builder evaluates to (`data` is the cached level-2 record,
pairs are `(volume, order count)`). -/
def exprField : String → Option Field
  | "self.env.get_orderbook().get_trade_vol()" => some .tradeVol
  | "data.bid_price" => some .bidPrice
  | "data.ask_price" => some .askPrice
  | "data.bid_vol" => some .bidVol
  | "data.ask_vol" => some .askVol
  | "data.bid_price_levels[0].0" => some (.bidLevelVol (some 0))
  | "data.bid_price_levels[0].1" => some (.bidLevelOrders (some 0))
  | "data.ask_price_levels[0].0" => some (.askLevelVol (some 0))
  | "data.ask_price_levels[0].1" => some (.askLevelOrders (some 0))
  | "data.bid_price_levels[i].0" => some (.bidLevelVol none)
  | "data.bid_price_levels[i].1" => some (.bidLevelOrders none)
  | "data.ask_price_levels[i].0" => some (.askLevelVol none)
  | "data.ask_price_levels[i].1" => some (.askLevelOrders none)
  | _ => none

/-- The documented level-1 layout (9 elements). -/
def l1Doc : List (Option Field) :=
  [some .tradeVol, some .bidPrice, some .askPrice, some .bidVol, some .askVol, some (.bidLevelVol (some 0)),
   some (.bidLevelOrders (some 0)), some (.askLevelVol (some 0)), some (.askLevelOrders (some 0))]

def l2HeaderDoc : List (Option Field) := [some .tradeVol, some .bidPrice, some .askPrice, some .bidVol, some .askVol]
def l2BlockDoc : List (Option Field) :=
  [some (.bidLevelVol none), some (.bidLevelOrders none), some (.askLevelVol none), some (.askLevelOrders none)]

/-- **`StepEnv.level_1_data_array`**: element k is the quantity documented for index k, the indices
are 0..8 and the array has 9 elements. -/
theorem stepEnv_l1_layout :
    stepEnv_l1_header.map exprField = l1Doc ∧ stepEnv_l1_docIndexed.map (fun r => docField r.2) = l1Doc ∧
    stepEnv_l1_docIndexed.map (·.1) = ["0", "1", "2", "3", "4", "5", "6", "7", "8"] ∧
    stepEnv_l1_loopBody = [] ∧ stepEnv_l1_tail = "data_vec.to_pyarray(py)" := by decide

/-- **`StepEnv.level_2_data_array`**: 5 leading elements as documented, then for each of exactly 10
levels (bid volume, bid count, ask volume, ask count): 45 elements. -/
theorem stepEnv_l2_layout :
    stepEnv_l2_header.map exprField = l2HeaderDoc ∧ stepEnv_l2_docIndexed.map (fun r => docField r.2) = l2HeaderDoc ∧
    stepEnv_l2_docIndexed.map (·.1) = ["0", "1", "2", "3", "4"] ∧
    stepEnv_l2_loopBody.map exprField = l2BlockDoc ∧ stepEnv_l2_docBlock.map docField = l2BlockDoc ∧
    stepEnv_l2_loopCount = "10" ∧ stepEnv_l2_tail = "data_vec.to_pyarray(py)" := by decide

/-- **`StepEnvNumpy.level_1_data`**. -/
theorem stepEnvNumpy_l1_layout :
    stepEnvNumpy_l1_header.map exprField = l1Doc ∧ stepEnvNumpy_l1_docIndexed.map (fun r => docField r.2) = l1Doc ∧
    stepEnvNumpy_l1_docIndexed.map (·.1) = ["0", "1", "2", "3", "4", "5", "6", "7", "8"] ∧
    stepEnvNumpy_l1_loopBody = [] ∧ stepEnvNumpy_l1_tail = "data_vec.to_pyarray(py)" := by decide

/-- **`StepEnvNumpy.level_2_data`**, and the same layout is what `base_agent.py` documents to the
Python agents that receive this array. -/
theorem stepEnvNumpy_l2_layout :
    stepEnvNumpy_l2_header.map exprField = l2HeaderDoc ∧
    stepEnvNumpy_l2_docIndexed.map (fun r => docField r.2) = l2HeaderDoc ∧
    stepEnvNumpy_l2_docIndexed.map (·.1) = ["0", "1", "2", "3", "4"] ∧
    stepEnvNumpy_l2_loopBody.map exprField = l2BlockDoc ∧ stepEnvNumpy_l2_docBlock.map docField = l2BlockDoc ∧
    stepEnvNumpy_l2_loopCount = "10" ∧ stepEnvNumpy_l2_tail = "data_vec.to_pyarray(py)" ∧
    baseAgent_docIndexed.map (fun r => docField r.2) = l2HeaderDoc ∧
    baseAgent_docIndexed.map (·.1) = ["0", "1", "2", "3", "4"] ∧ baseAgent_docBlock.map docField = l2BlockDoc := by decide

/-- The number of elements of an array built from `header` and `count` repetitions of `body`. -/
def layoutLength (header : List String) (count : Nat) (body : List String) : Nat := header.length + count * body.length

/-- The arrays have the documented lengths 9 and 45 (5 + "the following 40 values"). -/
theorem array_lengths :
    layoutLength stepEnv_l1_header 0 stepEnv_l1_loopBody = 9 ∧ layoutLength stepEnv_l2_header 10 stepEnv_l2_loopBody = 45 ∧
    layoutLength stepEnvNumpy_l1_header 0 stepEnvNumpy_l1_loopBody = 9 ∧
    layoutLength stepEnvNumpy_l2_header 10 stepEnvNumpy_l2_loopBody = 45 := by decide

/-- Rendering a layout on a market state (a valuation of the fields). -/
def render (layout : List Field) (st : Field → Nat) : List Nat := layout.map st

def code : Field → Nat
  | .tradeVol => 0 | .bidPrice => 1 | .askPrice => 2 | .bidVol => 3 | .askVol => 4
  | .bidLevelVol l => 5 + 4 * (match l with | none => 0 | some k => k + 1)
  | .bidLevelOrders l => 6 + 4 * (match l with | none => 0 | some k => k + 1)
  | .askLevelVol l => 7 + 4 * (match l with | none => 0 | some k => k + 1)
  | .askLevelOrders l => 8 + 4 * (match l with | none => 0 | some k => k + 1)

theorem code_injective (a b : Field) (h : code a = code b) : a = b := by
  cases a <;> cases b <;> simp only [code] at h <;> (try omega) <;> (try rfl)
  all_goals
    rename_i l1 l2
    cases l1 <;> cases l2 <;> simp at h ⊢ <;> omega

/-- **Two layouts render equal arrays on every market state iff they are the same field list**:
comparing the implemented layout with the documented one as lists decides the property for all
states, asymmetric ones included. -/
theorem map_code_injective (l1 l2 : List Field) (h : l1.map code = l2.map code) : l1 = l2 := by
  induction l1 generalizing l2 with
  | nil => cases l2 with
    | nil => rfl
    | cons b l2 => simp at h
  | cons a l1 ih =>
    cases l2 with
    | nil => simp at h
    | cons b l2 =>
      simp only [List.map_cons, List.cons.injEq] at h
      rw [code_injective a b h.1, ih l2 h.2]

theorem render_congr (l1 l2 : List Field) : (∀ st, render l1 st = render l2 st) ↔ l1 = l2 := by
  constructor
  · intro h
    have := h code
    simp only [render] at this
    exact map_code_injective l1 l2 this
  · intro h; subst h; intro _; rfl

/-- **The market-data dictionary has exactly the documented keys, each bound to the matching series**
(both environments): per-level keys `bid_vol_i`/`ask_vol_i`/`n_bid_i`/`n_ask_i` to the bid/ask
volume/order-count series of level `i`, and the five whole-book series. -/
theorem market_data_keys_bound :
    stepEnv_marketData = [("\"bid_vol_{i}\"", "data.volumes_at_levels.0[i].to_pyarray(py)"),
      ("\"ask_vol_{i}\"", "data.volumes_at_levels.1[i].to_pyarray(py)"), ("\"n_bid_{i}\"", "data.orders_at_levels.0[i].to_pyarray(py)"),
      ("\"n_ask_{i}\"", "data.orders_at_levels.1[i].to_pyarray(py)"), ("\"bid_price\"", "data.prices.0.to_pyarray(py)"),
      ("\"ask_price\"", "data.prices.1.to_pyarray(py)"), ("\"bid_vol\"", "data.volumes.0.to_pyarray(py)"),
      ("\"ask_vol\"", "data.volumes.1.to_pyarray(py)"), ("\"trade_vol\"", "trade_volumes")] ∧
    stepEnvNumpy_marketData = stepEnv_marketData := by decide

/-- **Data-frame helpers name each column after the field it holds**: column k of the order frame is
named after field k of the order tuple, likewise for trades; side and status are mapped to the
documented names. -/
theorem frame_columns_named :
    ordersFrame_columns = ["side", "status", "arr_time", "end_time", "vol", "start_vol", "price", "trader_id", "order_id"] ∧
    castOrder = ["order.side.into()", "order.status.into()", "order.arr_time", "order.end_time", "order.vol",
                 "order.start_vol", "order.price", "order.trader_id", "order.order_id"] ∧
    ordersFrame_docColumns = ordersFrame_columns ∧
    tradesFrame_columns = ["time", "side", "price", "vol", "active_id", "passive_id"] ∧
    castTrade = ["trade.t", "trade.side.into()", "trade.price", "trade.vol", "trade.active_order_id", "trade.passive_order_id"] ∧
    ordersFrame_maps = ["True:bid,False:ask", "0:new,1:active,2:filled,3:cancelled,4:rejected"] ∧
    tradesFrame_maps = ["True:bid,False:ask"] := by decide

/-- Non-vacuity of `render_congr`: the documented level-1 layout and the transposed one (ask volume
before bid volume — the former defect F-C19-1) differ on a state with bid volume 21, ask volume 7. -/
example :
    render [.bidVol, .askVol] (fun f => if f = .bidVol then 21 else 7) ≠
    render [.askVol, .bidVol] (fun f => if f = .bidVol then 21 else 7) := by decide

end Bourse.Props.C19
