/-
C03 — the trade ledger is complete, exact and conserves volume.
Property theorems only.
-/
import Bourse.Lemmas.TradeRoles
import Bourse.Model.Ops
import Bourse.Lemmas.Frame
import Bourse.Lemmas.RefLedgerStep
import Bourse.Lemmas.NoOverflow

namespace Bourse.Props.C03
open Bourse

/-- `b'` extends the ledger of `b`: the old records are an unchanged prefix, and the cumulative
counter grew by exactly the volume of the new records. -/
def Extends (b b' : Book) : Prop :=
  ∃ new : List Trade, b'.trades = b.trades ++ new ∧
    b'.tradeVol = b.tradeVol + (new.map (·.vol)).sum ∧
    (∀ tr ∈ new, tr.t = b.t) ∧ b'.t = b.t

theorem Extends.refl (b : Book) : Extends b b := ⟨[], by simp⟩

theorem Extends.trans {a b c : Book} (h1 : Extends a b) (h2 : Extends b c) : Extends a c := by
  obtain ⟨n1, e1, v1, t1, tt1⟩ := h1
  obtain ⟨n2, e2, v2, t2, tt2⟩ := h2
  refine ⟨n1 ++ n2, by simp [e2, e1], by simp [v2, v1, Nat.add_assoc], ?_, by rw [tt2, tt1]⟩
  intro tr h
  rcases List.mem_append.mp h with h | h
  · exact t1 tr h
  · rw [t2 tr h, tt1]

/-- Same ledger, same counter, same clock. -/
theorem Extends.of_eq {b b' : Book} (h1 : b'.trades = b.trades) (h2 : b'.tradeVol = b.tradeVol)
    (h3 : b'.t = b.t) : Extends b b' := ⟨[], by simp [h1, h2, h3]⟩

/-- One fill appends exactly one record — stamped with the book time, carrying the passive
order's side and price and the ids of aggressor and passive — and adds its volume to the counter. -/
theorem fillStep_extends (sd : Side) (b : Book) (e : Entry) (id : Nat) (m : Entry) :
    (Book.fillStep sd b e id m).1.trades = b.trades ++
      [{ t := b.t, side := m.order.side, price := m.order.price, vol := min e.order.vol m.order.vol,
         active := e.order.id, passive := m.order.id }] ∧
    (Book.fillStep sd b e id m).1.tradeVol = b.tradeVol + min e.order.vol m.order.vol ∧
    (Book.fillStep sd b e id m).1.t = b.t := by
  simp [Book.fillStep, Book.matchOrders]

theorem matchLoop_extends (sd : Side) (fuel : Nat) (b : Book) (e : Entry) :
    Extends b (Book.matchLoop sd fuel b e).1 := by
  induction fuel generalizing b e with
  | zero => exact Extends.of_eq rfl rfl rfl
  | succ fuel ih =>
    unfold Book.matchLoop
    split
    · split
      · exact Extends.refl b
      · split
        · exact Extends.of_eq rfl rfl rfl
        · rename_i _ id _ _ m _
          have h := fillStep_extends sd b e id m
          refine Extends.trans ⟨[_], h.1, ?_, ?_, h.2.2⟩ (ih _ _)
          · simp [h.2.1]
          · intro tr htr; simp at htr; simp [htr]
    · exact Extends.refl b

theorem matchIfTrading_extends (sd : Side) (b : Book) (e : Entry) :
    Extends b (Book.matchIfTrading sd b e).1 := by
  unfold Book.matchIfTrading Book.matchSide
  split
  · exact matchLoop_extends _ _ _ _
  · exact Extends.refl b

theorem restUnlessFilled_extends (sd : Side) (r : Book × Entry) (pk : Nat) :
    Extends r.1 (Book.restUnlessFilled sd r pk).1 := by
  have := Book.restUnlessFilled_trades sd r pk
  exact Extends.of_eq this.1 this.2.1 this.2.2.2.1

theorem placeEntry_extends (b : Book) (e : Entry) : Extends b (b.placeEntry e).1 := by
  unfold Book.placeEntry
  split
  · unfold Book.placeMarket
    split
    · unfold Book.cancelRemainder
      split <;> exact matchLoop_extends _ _ _ _
    · exact Extends.refl b
  · exact Extends.trans (matchIfTrading_extends _ b e) (restUnlessFilled_extends _ _ _)

theorem place_extends (b : Book) (id : Nat) : Extends b (b.placeOrder id) := by
  unfold Book.placeOrder
  split
  · exact Extends.of_eq rfl rfl rfl
  · split
    · exact Extends.refl b
    · obtain ⟨n, h1, h2, h3, h4⟩ := placeEntry_extends b (b.activate _)
      exact ⟨n, by simpa using h1, by simpa using h2, h3, by simpa using h4⟩

theorem cancel_extends (b : Book) (id : Nat) : Extends b (b.cancelOrder id) := by
  unfold Book.cancelOrder
  split
  · exact Extends.of_eq rfl rfl rfl
  · split
    · exact Extends.of_eq (by simp) (by simp) (by simp)
    · exact Extends.refl b

theorem replace_extends (b : Book) (e : Entry) (p v : Nat) : Extends b (b.replaceOrder e p v).1 := by
  unfold Book.replaceOrder
  refine Extends.trans ?_ (restUnlessFilled_extends _ _ _)
  exact Extends.trans (Extends.of_eq (by simp) (by simp) (by simp)) (matchIfTrading_extends _ _ _)

theorem modify_extends (b : Book) (id : Nat) (p v : Option Nat) : Extends b (b.modifyOrder id p v) := by
  unfold Book.modifyOrder
  split
  · exact Extends.of_eq rfl rfl rfl
  · split
    · exact Extends.refl b
    · split
      · rename_i m _ _ _
        have : Extends b (b.modifyEntry m p v).1 := by
          unfold Book.modifyEntry
          split
          · exact Extends.refl b
          · split
            · exact Extends.of_eq (by simp [Book.reduceOrderVol]) (by simp [Book.reduceOrderVol])
                (by simp [Book.reduceOrderVol])
            · exact replace_extends _ _ _ _
          · exact replace_extends _ _ _ _
          · exact replace_extends _ _ _ _
        obtain ⟨n, h1, h2, h3, h4⟩ := this
        exact ⟨n, by simpa using h1, by simpa using h2, h3, by simpa using h4⟩
      · exact Extends.refl b

theorem create_extends (b : Book) (sd : Side) (vol tr : Nat) (p : Option Nat) :
    Extends b (b.createOrder sd vol tr p).1 := by
  unfold Book.createOrder
  split
  · split
    · exact Extends.refl b
    · exact Extends.of_eq rfl rfl rfl
  · exact Extends.of_eq rfl rfl rfl

/-- **Ledger step.** For every operation other than a clock change or a counter reset: the records
already in the log are unchanged (the new log is the old one plus a suffix), every new record is
stamped with the book time of the operation, and the cumulative counter grows by exactly the sum
of the new records' volumes. -/
theorem ledger_step (b : Book) (op : Op) (h1 : ∀ t, op ≠ .time t) (h2 : op ≠ .resetVol) :
    Extends b (b.step op).1 := by
  cases op with
  | create sd vol tr p => exact create_extends b sd vol tr p
  | place id => exact place_extends b id
  | cap sd vol tr p =>
    simp only [Book.step, Book.createAndPlace]
    split
    · exact Extends.trans (create_extends b sd vol tr p) (place_extends _ _)
    · exact create_extends b sd vol tr p
  | cancel id => exact cancel_extends b id
  | modify id p v => exact modify_extends b id p v
  | ev e =>
    cases e with
    | new id => exact place_extends b id
    | cancel id => exact cancel_extends b id
    | modify id p v => exact modify_extends b id p v
  | time t => exact absurd rfl (h1 t)
  | trading on => cases on <;> exact Extends.of_eq rfl rfl rfl
  | resetVol => exact absurd rfl h2
  | reload =>
    simp only [Book.step]
    split
    · exact Extends.refl b
    · exact Extends.of_eq rfl rfl rfl

/-- A clock change and a counter reset never touch the log; the reset sets the counter to 0. -/
theorem time_reset_ledger (b : Book) (t : Nat) :
    (b.step (.time t)).1.trades = b.trades ∧ (b.step (.time t)).1.tradeVol = b.tradeVol ∧
    (b.step .resetVol).1.trades = b.trades ∧ (b.step .resetVol).1.tradeVol = 0 := by
  simp [Book.step, Book.setTime, Book.resetTradeVol]

/-- **Records already in the log never change**, over any history: the log after any sequence
of operations has the log before it as a prefix. -/
theorem ledger_run_prefix (b : Book) (ops : List Op) :
    ∃ new, (b.run ops).trades = b.trades ++ new := by
  induction ops generalizing b with
  | nil => exact ⟨[], by simp [Book.run]⟩
  | cons op ops ih =>
    obtain ⟨n2, h2⟩ := ih (b.step op).1
    have h1 : ∃ n1, (b.step op).1.trades = b.trades ++ n1 := by
      by_cases ht : ∃ t, op = .time t
      · obtain ⟨t, rfl⟩ := ht; exact ⟨[], by simp [(time_reset_ledger b t).1]⟩
      · by_cases hr : op = .resetVol
        · subst hr; exact ⟨[], by simp [(time_reset_ledger b 0).2.2.1]⟩
        · obtain ⟨n, h, _⟩ := ledger_step b op (fun t h => ht ⟨t, h⟩) hr
          exact ⟨n, h⟩
    obtain ⟨n1, h1⟩ := h1
    refine ⟨n1 ++ n2, ?_⟩
    simp only [Book.run, List.foldl_cons] at h2 ⊢
    rw [h2, h1, List.append_assoc]

/-- Non-vacuity: a history with a multi-fill aggressor, a modification that trades and a reset. -/
example :
    let b0 := Book.new 0 1 true
    let b := b0.run [.cap .ask 5 1 (some 10), .time 1, .cap .ask 5 2 (some 11), .time 2,
      .cap .bid 7 3 (some 11), .time 3, .cap .bid 2 4 (some 9), .resetVol, .time 4, .modify 3 (some 11) (some 4)]
    b.trades.length = 3 ∧ b.tradeVol = 3 ∧ (b.trades.map (·.vol)) = [5, 2, 3] := by decide


/-! ### Record contents and conservation, for every reachable state (through the refinement) -/

/-- **Every new record is a real fill.** In any state satisfying the invariant (every reachable
state), a valid operation that does not fault appends records each of which: is stamped with the
book time; has a positive volume; names two different orders that exist in the table after the
operation; the passive order is on the record's side at exactly the record's price; the aggressive
order is on the opposite side and its limit admits the price (for a market order the limit is the
sentinel 0 / maximum price, which admits every price). -/
theorem new_records_wellformed {b : Book} (h : Inv b) (op : Op) (hv : ValidOp op)
    (hnf : (b.step op).1.faulted = false) :
    ∃ new, (b.step op).1.trades = b.trades ++ new ∧
      ∀ tr ∈ new, TradeFinal b.t ((b.step op).1.orders.map (·.order)) tr := by
  obtain ⟨new, e, w, _, _⟩ := step_ledger h op hv hnf
  exact ⟨new, e, w⟩

/-- **Volume conservation, one operation.** Every order that exists before the operation exists
after it with the same id, side, trader and starting volume, and its remaining volume plus the
volume of the NEW records it takes part in equals the volume the operation explicitly gives it —
its previous volume, unless the operation is an accepted volume modification of that very order. -/
theorem volume_conserved_step {b : Book} (h : Inv b) (op : Op) (hv : ValidOp op)
    (hnf : (b.step op).1.faulted = false) :
    ∃ new, (b.step op).1.trades = b.trades ++ new ∧
      ∀ (id : Nat) (e : Entry), b.orders[id]? = some e →
        ∃ e', (b.step op).1.orders[id]? = some e' ∧
          e'.order.vol + tradedOf id new = volRequested b.tick op id e.order ∧
          e'.order.id = e.order.id ∧ e'.order.side = e.order.side ∧ e'.order.trader = e.order.trader ∧
          e'.order.svol = e.order.svol := by
  obtain ⟨new, e, _, c, _⟩ := step_ledger h op hv hnf
  refine ⟨new, e, ?_⟩
  intro id en hen
  obtain ⟨o', ho', hr⟩ := c id en.order (by rw [abs_get, hen]; rfl)
  rw [abs_get] at ho'
  cases he' : (b.step op).1.orders[id]? with
  | none => rw [he'] at ho'; cases ho'
  | some e' => rw [he'] at ho'; injection ho' with ho'; subst ho'; exact ⟨e', rfl, hr⟩

/-- **Volume conservation, whole histories.** After any valid fault-free history from a new book
that contains no explicit volume modification, for every order: remaining volume + total volume of
its logged trades = starting volume; and every logged trade names two existing orders. -/
theorem volume_conserved_history (t0 tick : Nat) (trading : Bool) (ht : 0 < tick) (ops : List Op)
    (hv : ∀ op ∈ ops, ValidOp op) (hm : ∀ op ∈ ops, NoVolModify op)
    (hnf : NoFault (Book.new t0 tick trading) ops) :
    let b := (Book.new t0 tick trading).run ops
    (∀ (id : Nat) (e : Entry), b.orders[id]? = some e → e.order.vol + tradedOf id b.trades = e.order.svol) ∧
    (∀ tr ∈ b.trades, tr.active < b.orders.length ∧ tr.passive < b.orders.length) := by
  intro b
  have hl := ledger_run (inv_new t0 tick trading ht) (ledgerInv_new t0 tick trading) ops hv hm hnf
  refine ⟨?_, ?_⟩
  · intro id e he
    exact hl.cons id e.order (by rw [abs_get, he]; rfl)
  · intro tr htr
    have := hl.refs tr htr
    simpa [abs, absOrders] using this

/-- Non-vacuity: the history of the earlier example without its volume modification satisfies the
hypotheses, trades, and conserves. -/
example :
    let b := (Book.new 0 1 true).run [.cap .ask 5 1 (some 10), .time 1, .cap .ask 5 2 (some 11), .time 2,
      .cap .bid 7 3 (some 11), .time 3, .cap .bid 2 4 (some 9), .time 4, .modify 3 (some 11) none]
    (b.orders.map fun e => (e.order.vol, e.order.svol)) = [(0, 5), (1, 5), (0, 7), (0, 2)] ∧
    (List.range 4).map (fun id => tradedOf id b.trades) = [5, 4, 7, 2] := by decide

/-- `volume_conserved_history` for valid histories as the property states them. -/
theorem volume_conserved_history_valid (t0 tick : Nat) (trading : Bool) (ops : List Op)
    (h : ValidHistory t0 tick trading ops) (hm : ∀ op ∈ ops, NoVolModify op) :
    let b := (Book.new t0 tick trading).run ops
    (∀ (id : Nat) (e : Entry), b.orders[id]? = some e → e.order.vol + tradedOf id b.trades = e.order.svol) ∧
    (∀ tr ∈ b.trades, tr.active < b.orders.length ∧ tr.passive < b.orders.length) :=
  volume_conserved_history t0 tick trading h.tick_pos ops h.ops_valid hm h.noFault

/-! ### Who is the aggressor -/

/-- The order an operation places or re-prices (`none`: the operation cannot trade). -/
def subjectOf (b : Book) : Op → Option Nat
  | .place i | .ev (.new i) | .modify i _ _ | .ev (.modify i _ _) => some i
  | .cap .. => some b.orders.length
  | _ => none

theorem subject_abs (b : Book) (op : Op) : Ref.subject (abs b) op = subjectOf b op := by
  cases op with
  | ev e => cases e <;> rfl
  | cap sd vol tr p => simp [Ref.subject, subjectOf, abs, absOrders]
  | _ => rfl

/-- **"… the ids of the aggressive and the passive order"**: in every reachable state, every record a
valid operation appends names as its aggressive order exactly the order that operation placed or
re-priced (for `create_and_place_order` the id it returns); an operation that places or re-prices
nothing — creation alone, cancellation, clock, switches, counter reset, reload — appends nothing. -/
theorem aggressor_is_the_operations_order (t0 tick : Nat) (trading : Bool) (ht : 0 < tick) (ops : List Op)
    (hv : ∀ op ∈ ops, ValidOp op) (hnf : NoFault (Book.new t0 tick trading) ops) (op : Op) (hvo : ValidOp op)
    (hnfo : (((Book.new t0 tick trading).run ops).step op).1.faulted = false) :
    let b := (Book.new t0 tick trading).run ops
    ∃ new, (b.step op).1.trades = b.trades ++ new ∧ ∀ tr ∈ new, subjectOf b op = some tr.active := by
  intro b
  have hi := inv_run (inv_new t0 tick trading ht) ops hv hnf
  obtain ⟨new, h1, h2⟩ := book_step_active hi op hvo hnfo
  exact ⟨new, h1, fun tr htr => by rw [← subject_abs]; exact h2 tr htr⟩

/-- … and the passive order of every record appended by placing an existing order or by a modification
was RESTING (Active, queued) before the operation — in every reachable state; `create_and_place_order`
included. (The other operations append nothing, `aggressor_is_the_operations_order`.) -/
theorem passive_order_was_resting (t0 tick : Nat) (trading : Bool) (ht : 0 < tick) (ops : List Op)
    (hv : ∀ op ∈ ops, ValidOp op) (hnf : NoFault (Book.new t0 tick trading) ops) (op : Op) (hvo : ValidOp op)
    (hnfo : (((Book.new t0 tick trading).run ops).step op).1.faulted = false)
    (hop : (∃ i, op = .place i) ∨ (∃ i, op = .ev (.new i)) ∨ (∃ i p v, op = .modify i p v) ∨ (∃ i p v, op = .ev (.modify i p v)) ∨
      (∃ sd vol tr p, op = .cap sd vol tr p)) :
    let b := (Book.new t0 tick trading).run ops
    ∃ new, (b.step op).1.trades = b.trades ++ new ∧
      ∀ tr ∈ new, ∃ e, b.orders[tr.passive]? = some e ∧ e.order.status = .active := by
  intro b
  exact book_passive_was_resting (inv_run (inv_new t0 tick trading ht) ops hv hnf) op hvo hnfo hop

/-- Non-vacuity: the OLDER order (id 0, created first, placed last) is the aggressor of the record. -/
example :
    let b := (Book.new 0 1 true).run [.create .bid 5 1 (some 10), .cap .ask 5 2 (some 10)]
    ((b.step (.place 0)).1.trades.map fun tr => (tr.active, tr.passive)) = [(0, 1)] ∧ subjectOf b (.place 0) = some 0 := by
  decide

end Bourse.Props.C03
