/-
C04 — one-way lifecycle; redundant requests are no-ops.
Property theorems only (helper lemmas live in `Bourse/Lemmas`).
-/
import Bourse.Model.Ops
import Bourse.Lemmas.Lifecycle
import Bourse.Lemmas.RefTimes
import Bourse.Lemmas.NoOverflow
import Bourse.Lemmas.PlaceCancelFinal

namespace Bourse.Props.C04
open Bourse

/-- Placing an order that is not `New` a second time changes nothing — full model-state
equality, which is stronger than equality of every observable. -/
theorem place_nonNew_noop (b : Book) (id : Nat) (e : Entry)
    (h : b.orders[id]? = some e) (hs : e.order.status ≠ .new) : b.placeOrder id = b := by
  simp [Book.placeOrder, h, hs]

/-- Cancelling an order that is not `Active` changes nothing. -/
theorem cancel_nonActive_noop (b : Book) (id : Nat) (e : Entry)
    (h : b.orders[id]? = some e) (hs : e.order.status ≠ .active) : b.cancelOrder id = b := by
  simp [Book.cancelOrder, h, hs]

/-- Modifying an order that is not `Active` changes nothing, whatever is requested. -/
theorem modify_nonActive_noop (b : Book) (id : Nat) (e : Entry) (p v : Option Nat)
    (h : b.orders[id]? = some e) (hs : e.order.status ≠ .active) : b.modifyOrder id p v = b := by
  by_cases hg : Book.offGrid b.tick p = true <;> simp [Book.modifyOrder, h, hg, hs]

/-- The same three facts for requests arriving as events. -/
theorem event_redundant_noop (b : Book) (id : Nat) (e : Entry) (h : b.orders[id]? = some e) :
    (e.order.status ≠ .new → b.processEvent (.new id) = b) ∧
    (e.order.status ≠ .active → b.processEvent (.cancel id) = b) ∧
    (∀ p v, e.order.status ≠ .active → b.processEvent (.modify id p v) = b) :=
  ⟨fun hs => place_nonNew_noop b id e h hs, fun hs => cancel_nonActive_noop b id e h hs,
   fun p v hs => modify_nonActive_noop b id e p v h hs⟩

/-- Changing the clock changes the clock and nothing else. -/
theorem setTime_only_time (b : Book) (t : Nat) : b.setTime t = { b with t := t } := rfl

/-- Hence every observable other than the time is unchanged by a clock change. -/
theorem setTime_observe (b : Book) (t n : Nat) :
    (b.setTime t).observe n = { b.observe n with t := t } := rfl

/-- **One-way lifecycle, over every history.** Take any state reachable from a new book by valid
fault-free operations, and any valid fault-free continuation: every order that existed keeps its
index and its id, side, trader and starting volume; its status has only advanced along
New → Active → Filled/Cancelled (or straight from New to Filled/Cancelled/Rejected); and if it was
already Filled, Cancelled or Rejected its whole record is unchanged. -/
theorem lifecycle_one_way (t0 tick : Nat) (trading : Bool) (ht : 0 < tick) (ops cont : List Op)
    (hv : ∀ op ∈ ops, ValidOp op) (hnf : NoFault (Book.new t0 tick trading) ops)
    (hv' : ∀ op ∈ cont, ValidOp op) (hnf' : NoFault ((Book.new t0 tick trading).run ops) cont) :
    ∀ (i : Nat) (e : Entry), ((Book.new t0 tick trading).run ops).orders[i]? = some e →
      ∃ e', (((Book.new t0 tick trading).run ops).run cont).orders[i]? = some e' ∧
        Adv e.order.status e'.order.status = true ∧ e'.order.id = e.order.id ∧ e'.order.side = e.order.side ∧
        e'.order.trader = e.order.trader ∧ e'.order.svol = e.order.svol ∧
        (isTerminal e.order.status = true → e'.order = e.order) :=
  lifecycle_run (inv_reachable t0 tick trading ht ops hv hnf) cont hv' hnf'

/-- Ids are assigned densely in creation order: in every reachable state the order at index `i`
has id `i`. -/
theorem ids_dense (t0 tick : Nat) (trading : Bool) (ht : 0 < tick) (ops : List Op)
    (hv : ∀ op ∈ ops, ValidOp op) (hnf : NoFault (Book.new t0 tick trading) ops) :
    ∀ (i : Nat) (e : Entry), ((Book.new t0 tick trading).run ops).orders[i]? = some e → e.order.id = i :=
  (inv_reachable t0 tick trading ht ops hv hnf).ids

/-- The allowed moves, spelled out: nothing ever leaves a terminal status, Active never goes back
to New, and Rejected is reachable from New only. -/
theorem adv_table :
    (∀ s, Adv .filled s = true → s = .filled) ∧ (∀ s, Adv .cancelled s = true → s = .cancelled) ∧
    (∀ s, Adv .rejected s = true → s = .rejected) ∧ Adv .active .new = false ∧ Adv .active .rejected = false := by
  refine ⟨?_, ?_, ?_, rfl, rfl⟩ <;> intro s <;> cases s <;> simp [Adv]

/-- Non-vacuity: a concrete book with a Filled, a Cancelled and an Active order on which the
three redundant requests are exercised. -/
example :
    let b0 := Book.new 0 1 true
    let b1 := (b0.step (.cap .ask 5 1 (some 10))).1
    let b2 := (b1.step (.cap .bid 5 2 (some 10))).1     -- fills order 0
    let b3 := (b2.step (.cap .bid 3 2 (some 9))).1      -- order 2 rests
    let b4 := (b3.step (.cancel 2)).1                   -- order 2 cancelled
    b4.placeOrder 0 = b4 ∧ b4.cancelOrder 0 = b4 ∧ b4.cancelOrder 2 = b4 ∧
      b4.modifyOrder 2 (some 11) (some 7) = b4 := by decide


/-! ### Arrival and end times -/

/-- **Arrival and end times, one operation.** In every reachable state (invariant), for every valid
operation that does not fault and every order that exists before it, with `t` the book time:
* once placed, the arrival time never changes (a re-entering modification keeps it);
* a New order is left exactly as it was, or has been placed now and its arrival time is `t`;
* the end time changes only at the moment the order becomes Filled, Cancelled or Rejected —
* — and then it is `t`;
* a Filled, Cancelled or Rejected record never changes again. -/
theorem times_one_operation {b : Book} (h : Inv b) (op : Op) (hv : ValidOp op)
    (hnf : (b.step op).1.faulted = false) (id : Nat) (e : Entry) (he : b.orders[id]? = some e) :
    ∃ e', (b.step op).1.orders[id]? = some e' ∧
      (e.order.status ≠ .new → e'.order.arr = e.order.arr) ∧
      (e.order.status = .new → e'.order = e.order ∨ (e'.order.status ≠ .new ∧ e'.order.arr = b.t)) ∧
      (¬(isTerminal e'.order.status = true ∧ isTerminal e.order.status = false) → e'.order.endt = e.order.endt) ∧
      (isTerminal e'.order.status = true → isTerminal e.order.status = false → e'.order.endt = b.t) ∧
      (isTerminal e.order.status = true → e'.order = e.order) := by
  obtain ⟨e', he', hs⟩ := step_times h op hv hnf id e he
  exact ⟨e', he', hs.arrKept, hs.arrSet, hs.endKept, hs.endSet, hs.term⟩

/-- **Open orders carry no end time.** After every valid fault-free history from a new book, an
order that is New or Active still has the "no end time" value it was created with; so an end time is
present exactly on terminal orders, and by `times_one_operation` it is the time they became terminal. -/
theorem open_orders_have_no_end_time (t0 tick : Nat) (trading : Bool) (ht : 0 < tick) (ops : List Op)
    (hv : ∀ op ∈ ops, ValidOp op) (hnf : NoFault (Book.new t0 tick trading) ops) :
    ∀ (id : Nat) (e : Entry), ((Book.new t0 tick trading).run ops).orders[id]? = some e →
      isTerminal e.order.status = false → e.order.endt = MAXT := by
  intro id e he hnt
  have h0 : OpenNoEnd (abs (Book.new t0 tick trading)) := by
    intro id o ho; simp [abs, absOrders, Book.new] at ho
  have := openNoEnd_run (inv_new t0 tick trading ht) h0 ops hv hnf
  exact this id e.order (by rw [abs_get, he]; rfl) hnt

/-- Non-vacuity: placement, a fill, a cancel and a rejection with the clock moving in between. -/
example :
    let b := (Book.new 0 1 true).run [.create .ask 5 1 (some 10), .time 3, .place 0, .time 5, .cap .bid 2 2 (some 10),
      .time 7, .cancel 0, .trading false, .time 9, .cap .bid 1 3 none]
    (b.orders.map fun e => (e.order.status, e.order.arr, e.order.endt)) =
      [(.cancelled, 3, 7), (.filled, 5, 5), (.rejected, 9, 9)] := by decide

/-- `lifecycle_one_way` for valid histories as the property states them: a valid history followed
by a valid, feasible continuation. -/
theorem lifecycle_one_way_valid (t0 tick : Nat) (trading : Bool) (ops cont : List Op)
    (h : ValidHistory t0 tick trading ops)
    (hv' : ∀ op ∈ cont, ValidOp op) (hf' : Feasible ((Book.new t0 tick trading).run ops) cont) :
    ∀ (i : Nat) (e : Entry), ((Book.new t0 tick trading).run ops).orders[i]? = some e →
      ∃ e', (((Book.new t0 tick trading).run ops).run cont).orders[i]? = some e' ∧
        Adv e.order.status e'.order.status = true ∧ e'.order.id = e.order.id ∧ e'.order.side = e.order.side ∧
        e'.order.trader = e.order.trader ∧ e'.order.svol = e.order.svol ∧
        (isTerminal e.order.status = true → e'.order = e.order) :=
  lifecycle_one_way t0 tick trading h.tick_pos ops cont h.ops_valid h.noFault hv'
    (noFault_of_feasible h.inv cont hv' hf')

theorem open_orders_have_no_end_time_valid (t0 tick : Nat) (trading : Bool) (ops : List Op)
    (h : ValidHistory t0 tick trading ops) :
    ∀ (id : Nat) (e : Entry), ((Book.new t0 tick trading).run ops).orders[id]? = some e →
      isTerminal e.order.status = false → e.order.endt = MAXT :=
  open_orders_have_no_end_time t0 tick trading h.tick_pos ops h.ops_valid h.noFault

/-! ### Placement and cancellation are final -/

/-- **Placing a New order leaves it non-New** (Active, Filled, Cancelled or Rejected), in every state
satisfying the invariant. -/
theorem placing_leaves_new {b : Book} (h : Inv b) (id : Nat) (e : Entry) (he : b.orders[id]? = some e)
    (hn : e.order.status = .new) (hnf : (b.step (.place id)).1.faulted = false) :
    ∃ e', (b.step (.place id)).1.orders[id]? = some e' ∧ e'.order.status ≠ .new :=
  place_not_new h id e he hn hnf

/-- **A cancelled order is never live again**: cancelling an Active order makes it Cancelled with the
book time as end time, and whatever valid fault-free operations follow — placements of it, further
cancels, modifications, clock changes, trading switches, reloads — its record stays exactly that. So an
agent that cancelled its order while it saw it Active holds no live order from then on. -/
theorem cancelled_order_never_live_again {b : Book} (h : Inv b) (id : Nat) (e : Entry) (he : b.orders[id]? = some e)
    (ha : e.order.status = .active) (hnf : (b.step (.cancel id)).1.faulted = false)
    (cont : List Op) (hv : ∀ op ∈ cont, ValidOp op) (hnf' : NoFault (b.step (.cancel id)).1 cont) :
    ∃ e', ((b.step (.cancel id)).1.run cont).orders[id]? = some e' ∧
      e'.order = { e.order with status := .cancelled, endt := b.t } := by
  obtain ⟨e1, he1, h1⟩ := cancel_active_final h id e he ha hnf
  have hinv := inv_step h (.cancel id) trivial hnf
  obtain ⟨e2, he2, hadv⟩ := lifecycle_run hinv cont hv hnf' id e1 he1
  refine ⟨e2, he2, ?_⟩
  have ht : isTerminal e1.order.status = true := by rw [h1]; rfl
  rw [hadv.2.2.2.2.2 ht, h1]

end Bourse.Props.C04
