/-
C08 — a simulation step applies exactly the queued instructions, once each, as a batch.
Property theorems only.
-/
import Bourse.Model.Env
import Bourse.Props.C14
import Bourse.Props.C15
import Bourse.Lemmas.EnvInv
import Bourse.Props.C01
import Bourse.Props.C03
import Bourse.Props.C04
import Bourse.Props.C12

namespace Bourse.Props.C08
open Bourse

/-- The market operations one step performs on an (already shuffled) batch: the `i`-th
instruction is preceded by setting the clock to `start + i`. -/
def batchOps (start : Nat) : Nat → List Instr → List Market.MOp
  | _, [] => []
  | i, (a, ev) :: rest => .time (start + i) :: .on a (.ev ev) :: batchOps start (i + 1) rest

/-- Everything a step does to the market, as a plain operation sequence. -/
def stepOps (start stepSize : Nat) (batch : List Instr) : List Market.MOp :=
  [.resetVol] ++ batchOps start 0 batch ++ [.time (start + stepSize)]

theorem processBatch_run (m : Market) (start i : Nat) (batch : List Instr) :
    MEnv.processBatch m start i batch = m.run (batchOps start i batch) := by
  induction batch generalizing m i with
  | nil => rfl
  | cons x rest ih =>
    obtain ⟨a, ev⟩ := x
    simp only [MEnv.processBatch, batchOps, Market.run, List.foldl_cons]
    rw [ih]
    rfl

/-- **A step is a replay.** The market after a step is exactly the market obtained by running,
on the market as it stood: reset the traded-volume counters; for `i = 0, 1, …` set the clock to
`start + i` and process the `i`-th instruction of the batch; set the clock to `start + step_size`.
Nothing else is applied. -/
theorem step_is_replay (e : MEnv) (batch : List Instr) :
    (e.stepWith batch).market = e.market.run (stepOps e.market.time e.stepSize batch) := by
  simp only [MEnv.stepWith, stepOps, processBatch_run, Market.run, List.foldl_append, List.foldl_cons,
    List.foldl_nil]
  rfl

/-- … and therefore **each asset's book after the step is what a plain order book produces**
when that asset's instructions are replayed on it in the processed order at those times
(C14's projection law applied to the replay). -/
theorem step_is_plain_book_replay (e : MEnv) (batch : List Instr) (a : Nat) :
    (e.stepWith batch).market.books[a]? =
      (e.market.books[a]?).map (fun b =>
        b.run ((stepOps e.market.time e.stepSize batch).filterMap (C14.project a))) := by
  rw [step_is_replay]
  exact C14.market_projection _ _ _

/-- **Exactly the queued instructions, once each.** The batch a step processes is a permutation
of the queue (whatever the generator state), the generator is the only other input, and the
queue is empty afterwards. -/
theorem step_processes_queue_once (e : MEnv) (g : Xoro) (batch : List Instr) (g' : Xoro)
    (h : Xoro.shuffle e.queue g = some (batch, g')) :
    e.step g = (e.stepWith batch, g') ∧ batch.Perm e.queue ∧ (e.step g).1.queue = [] := by
  refine ⟨by simp [MEnv.step, h], C15.shuffle_perm _ _ _ _ h, by simp [MEnv.step, h, MEnv.stepWith]⟩

/-- The `i`-th processed instruction runs with the clock at exactly `start + i`. -/
theorem batch_times (start i : Nat) (batch : List Instr) (k : Nat) (x : Instr) (h : batch[k]? = some x) :
    (batchOps start i batch)[2 * k]? = some (.time (start + i + k)) ∧
    (batchOps start i batch)[2 * k + 1]? = some (.on x.1 (.ev x.2)) := by
  induction batch generalizing i k with
  | nil => simp at h
  | cons y rest ih =>
    obtain ⟨a, ev⟩ := y
    cases k with
    | zero => simp at h; subst h; simp [batchOps]
    | succ k =>
      simp at h
      have := ih (i + 1) k h
      simp only [batchOps]
      rw [show 2 * (k + 1) = (2 * k) + 1 + 1 by omega, show 2 * k + 1 + 1 + 1 = (2 * k + 1) + 1 + 1 by omega]
      simp only [List.getElem?_cons_succ]
      rw [show start + i + (k + 1) = start + (i + 1) + k by omega]
      exact this

theorem setTime_books (m : Market) (t : Nat) : ∀ b ∈ (m.setTime t).books, b.t = t := by
  intro b hb
  simp [Market.setTime] at hb
  obtain ⟨b0, _, rfl⟩ := hb
  rfl

/-- **Afterwards** the queue is empty, every asset's clock stands at exactly `start + step_size`,
and one entry has been pushed to every per-asset traded-volume series, namely that asset's
counter (which the step reset to zero before processing). -/
theorem step_post (e : MEnv) (batch : List Instr) :
    (e.stepWith batch).queue = [] ∧
    (∀ b ∈ (e.stepWith batch).market.books, b.t = e.market.time + e.stepSize) ∧
    (e.stepWith batch).tradeVols =
      (e.tradeVols.zip ((e.stepWith batch).market.tradeVols)).map (fun (s, v) => s ++ [v]) := by
  refine ⟨rfl, ?_, rfl⟩
  intro b hb
  exact setTime_books _ _ b hb

/-- A step with nothing queued changes only the clock, the counters and the records: the market
is the old one with counters reset and the clock advanced. -/
theorem empty_step (e : MEnv) :
    (e.stepWith []).market = (e.market.resetTradeVols).setTime (e.market.time + e.stepSize) := rfl

/-- Non-vacuity: a two-asset environment, five queued instructions including a cancel and a modify
for orders created in the same batch; seed 7. The step processes a permutation, the clock lands on
start + step size and the replay equation holds by evaluation. -/
example :
    let e0 := MEnv.new 10 [1, 2] 100 true 3
    let e1 := ((((e0.placeOrder 0 .ask 5 1 (some 10)).1.placeOrder 1 .bid 4 2 (some 8)).1.placeOrder 0 .bid 7 3 (some 10)).1.cancelOrder 1 0).modifyOrder 0 0 (some 9) none
    let r := e1.step (Xoro.seed 7)
    r.1.queue = [] ∧ r.1.market.time = 110 ∧ (r.1.market.books.map (·.trades.length)) = [1, 0] ∧
    r.1.tradeVols = [[5], [0]] := by decide

/-! ### A whole simulation, seen from one asset, is a plain book history

Not just one step: every environment operation is a (possibly empty) sequence of plain market
operations, so the market of an environment after ANY sequence of submissions, queued
cancellations / modifications, trading switches and steps is the market run on the concatenated
plain operations, and (C14's projection law) each asset's book is a stand-alone book run on that
asset's share of them. Every theorem about book histories (C01–C07, C12, C13) therefore speaks about
every asset of every simulation. -/

/-- The plain market operations one environment operation performs. -/
def opMarketOps (e : MEnv) (g : Xoro) : MEnv.EOp → List Market.MOp
  | .submit a sd vol tr p => [.on a (.create sd vol tr p)]
  | .step =>
    match Xoro.shuffle e.queue g with
    | some (batch, _) => stepOps e.market.time e.stepSize batch
    | none => []
  | .trading on => [.trading on]
  | .qcancel _ _ => []
  | .qmodify _ _ _ _ => []

theorem apply_market (e : MEnv) (g : Xoro) (op : MEnv.EOp) :
    (e.apply g op).1.1.market = e.market.run (opMarketOps e g op) := by
  cases op with
  | submit a sd vol tr p =>
    simp only [MEnv.apply, MEnv.placeOrder, opMarketOps, Market.run, List.foldl_cons, List.foldl_nil, Market.step,
      Market.createOrder]
    split <;> rfl
  | qcancel a id => rfl
  | qmodify a id p v => rfl
  | step =>
    simp only [MEnv.apply, MEnv.step, opMarketOps]
    cases hs : Xoro.shuffle e.queue g with
    | none => rfl
    | some r =>
      obtain ⟨batch, g'⟩ := r
      exact step_is_replay e batch
  | trading on => cases on <;> rfl

/-- All plain market operations of a history of environment operations. -/
def envMarketOps : MEnv × Xoro → List MEnv.EOp → List Market.MOp
  | _, [] => []
  | s, op :: rest => opMarketOps s.1 s.2 op ++ envMarketOps (s.1.apply s.2 op).1 rest

theorem run_append (m : Market) (xs ys : List Market.MOp) : m.run (xs ++ ys) = (m.run xs).run ys := by
  simp [Market.run, List.foldl_append]

/-- **The market of an environment after any history** is the plain market run on the history's
operations. -/
theorem env_history_is_market_history (s : MEnv × Xoro) (ops : List MEnv.EOp) :
    (MEnv.runOps s ops).1.market = s.1.market.run (envMarketOps s ops) := by
  induction ops generalizing s with
  | nil => rfl
  | cons op rest ih =>
    simp only [MEnv.runOps, envMarketOps]
    rw [ih, run_append, apply_market]

/-- **Each asset's book after any simulation history is a stand-alone book** created with that
asset's tick size and run on that asset's share of the operations, at the same times. -/
theorem env_history_is_book_history (t0 : Nat) (ticks : List Nat) (stepSize : Nat) (trading : Bool) (n : Nat) (g : Xoro)
    (ops : List MEnv.EOp) (a : Nat) :
    (MEnv.runOps (MEnv.new t0 ticks stepSize trading n, g) ops).1.market.books[a]? =
      (ticks[a]?).map fun tk =>
        (Book.new t0 tk trading).run ((envMarketOps (MEnv.new t0 ticks stepSize trading n, g) ops).filterMap (C14.project a)) := by
  rw [env_history_is_market_history, C14.market_projection]
  simp only [MEnv.new, Market.new, List.getElem?_map, Option.map_map]
  rfl

/-- **In every reachable state of a simulation every book satisfies the book invariant** (so all its
published views equal the recomputation from its own orders, it reloads to itself, …). -/
theorem env_books_invariant (t0 : Nat) (ticks : List Nat) (stepSize : Nat) (trading : Bool) (n : Nat) (g : Xoro)
    (ht : ∀ t ∈ ticks, 0 < t) (ops : List MEnv.EOp) (hok : EnvRunOk (MEnv.new t0 ticks stepSize trading n, g) ops) :
    ∀ b ∈ (MEnv.runOps (MEnv.new t0 ticks stepSize trading n, g) ops).1.market.books, Inv b :=
  env_inv_reachable t0 ticks stepSize trading n g ht ops hok

/-- **Every asset of every simulation is the reference matching engine**: the book of asset `a` after
any environment history, forgetting keys / stamps / aggregates, is the state the straightforward
reference engine of C01 reaches on that asset's share of the operations — whenever that share is a
valid, fault-free book history (C01's own condition). One refinement theorem, lifted through the
projection: C01 holds inside simulations. -/
theorem simulation_asset_is_reference_engine (t0 : Nat) (ticks : List Nat) (stepSize : Nat) (trading : Bool) (n : Nat)
    (g : Xoro) (ops : List MEnv.EOp) (a tk : Nat) (htk : ticks[a]? = some tk) (hpos : 0 < tk)
    (hv : ∀ op ∈ (envMarketOps (MEnv.new t0 ticks stepSize trading n, g) ops).filterMap (C14.project a), ValidOp op)
    (hnf : NoFault (Book.new t0 tk trading) ((envMarketOps (MEnv.new t0 ticks stepSize trading n, g) ops).filterMap (C14.project a))) :
    ((MEnv.runOps (MEnv.new t0 ticks stepSize trading n, g) ops).1.market.books[a]?).map abs =
      some (Ref.run (Ref.init t0 tk trading) ((envMarketOps (MEnv.new t0 ticks stepSize trading n, g) ops).filterMap (C14.project a))) := by
  rw [env_history_is_book_history, htk]
  simp only [Option.map_some]
  rw [C01.state_is_reference_state t0 tk trading hpos _ hv hnf]

/-! Three more lifts through the projection, as samples of the general principle (each is the
book-history theorem of the named property applied to `env_history_is_book_history`): -/

/-- C12 in simulations: after any environment history every order of every asset is a market order or
priced on that asset's tick grid — with no hypothesis at all on what was submitted. -/
theorem simulation_prices_on_grid (t0 : Nat) (ticks : List Nat) (stepSize : Nat) (trading : Bool) (n : Nat)
    (g : Xoro) (ops : List MEnv.EOp) (a tk : Nat) (htk : ticks[a]? = some tk) (b : Book)
    (hb : (MEnv.runOps (MEnv.new t0 ticks stepSize trading n, g) ops).1.market.books[a]? = some b) :
    ∀ e ∈ b.orders, Book.isMarket e.order = true ∨ e.order.price % tk = 0 := by
  rw [env_history_is_book_history, htk] at hb
  simp only [Option.map_some, Option.some.injEq] at hb
  rw [← hb]
  exact C12.prices_on_grid_always t0 tk trading _

/-- C04 in simulations: an order of any asset that is still New or Active carries no end time. -/
theorem simulation_open_orders_have_no_end_time (t0 : Nat) (ticks : List Nat) (stepSize : Nat) (trading : Bool) (n : Nat)
    (g : Xoro) (ops : List MEnv.EOp) (a tk : Nat) (htk : ticks[a]? = some tk) (hpos : 0 < tk)
    (hv : ∀ op ∈ (envMarketOps (MEnv.new t0 ticks stepSize trading n, g) ops).filterMap (C14.project a), ValidOp op)
    (hnf : NoFault (Book.new t0 tk trading) ((envMarketOps (MEnv.new t0 ticks stepSize trading n, g) ops).filterMap (C14.project a)))
    (b : Book) (hb : (MEnv.runOps (MEnv.new t0 ticks stepSize trading n, g) ops).1.market.books[a]? = some b) :
    ∀ (id : Nat) (e : Entry), b.orders[id]? = some e → isTerminal e.order.status = false → e.order.endt = MAXT := by
  rw [env_history_is_book_history, htk] at hb
  simp only [Option.map_some, Option.some.injEq] at hb
  rw [← hb]
  exact C04.open_orders_have_no_end_time t0 tk trading hpos _ hv hnf

/-- C03 in simulations: in a history without explicit volume modifications every order of every asset
has lost exactly the volume of its logged trades, and every record names existing orders. -/
theorem simulation_volume_conserved (t0 : Nat) (ticks : List Nat) (stepSize : Nat) (trading : Bool) (n : Nat)
    (g : Xoro) (ops : List MEnv.EOp) (a tk : Nat) (htk : ticks[a]? = some tk) (hpos : 0 < tk)
    (hv : ∀ op ∈ (envMarketOps (MEnv.new t0 ticks stepSize trading n, g) ops).filterMap (C14.project a), ValidOp op)
    (hm : ∀ op ∈ (envMarketOps (MEnv.new t0 ticks stepSize trading n, g) ops).filterMap (C14.project a), NoVolModify op)
    (hnf : NoFault (Book.new t0 tk trading) ((envMarketOps (MEnv.new t0 ticks stepSize trading n, g) ops).filterMap (C14.project a)))
    (b : Book) (hb : (MEnv.runOps (MEnv.new t0 ticks stepSize trading n, g) ops).1.market.books[a]? = some b) :
    (∀ (id : Nat) (e : Entry), b.orders[id]? = some e → e.order.vol + tradedOf id b.trades = e.order.svol) ∧
    (∀ tr ∈ b.trades, tr.active < b.orders.length ∧ tr.passive < b.orders.length) := by
  rw [env_history_is_book_history, htk] at hb
  simp only [Option.map_some, Option.some.injEq] at hb
  rw [← hb]
  exact C03.volume_conserved_history t0 tk trading hpos _ hv hm hnf

/-- Non-vacuity: the history of the earlier example (three submissions, a queued cancel, a queued
modify, one step) as environment operations: the run satisfies `EnvRunOk` — so the theorems above
apply — and asset 0's book is the stand-alone book of `env_history_is_book_history`. -/
def exOps : List MEnv.EOp :=
  [.submit 0 .ask 5 1 (some 10), .submit 1 .bid 4 2 (some 8), .submit 0 .bid 7 3 (some 10), .qcancel 1 0, .qmodify 0 0 (some 9) none, .step]

example :
    let s0 := (MEnv.new 10 [1, 2] 100 true 3, Xoro.seed 7)
    ((MEnv.runOps s0 exOps).1.market.books.map fun b => (b.trades.length, b.t)) = [(1, 110), (0, 110)] ∧
    (envMarketOps s0 exOps).length = 15 ∧
    ((MEnv.runOps s0 exOps).1.market.books.map fun b => b.faulted) = [false, false] := by
  decide

end Bourse.Props.C08
