/-
Driver part for the momentum runs (`MM` lines, C17): the documented rule
  M = m(1 - decay) + decay (P - p);  act with probability |demand·tanh(scale·M)|/n;  buy if M > 0, sell if M < 0
evaluated in exact rational arithmetic on the mid-prices the agent observed, compared with the
orders the real agent submitted; and the mirrored-run comparison.
-/
import Bourse.Model.Momentum
import Driver.Parse

open Bourse Bourse.Driver

namespace Bourse.Driver

def parseRat (s : String) : Option Rat :=
  match s.splitOn "/" with
  | [a, b] => do
    let a ← a.toInt?; let b ← b.toNat?
    if b = 0 then none else some (mkRat a b)
  | [a] => a.toInt?.map fun a => (a : Rat)
  | _ => none

structure MomStep where
  mid2 : Nat
  mb : Nat
  ms : Nat
  lb : Nat
  ls : Nat

def parseMomSteps (s : String) : Option (List MomStep) :=
  if s == "ABORT" then none else
  (s.splitOn ",").mapM fun t =>
    match (t.splitOn ":").mapM String.toNat? with
    | some [a, b, c, d, e] => some { mid2 := a, mb := b, ms := c, lb := d, ls := e }
    | _ => none

/-- Check one run against the rule. Returns the failed clause names. -/
def checkMomRun (sat : Bool) (n : Nat) (decay ratio pm : Rat) (steps : List MomStep) : List String :=
  let mids : List Rat := steps.map fun s => mkRat s.mid2 2
  let ms := Momentum.signals decay mids
  ((steps.zip ms).zipIdx.flatMap fun ((s, m), i) =>
    let e := Momentum.expected sat n ratio pm m
    (if i == 0 && (s.mb + s.ms + s.lb + s.ls) != 0 then [s!"first_step_must_not_trade@{i}"] else []) ++
    (if m > 0 && (s.ms != 0 || s.ls != 0) then [s!"sells_with_positive_momentum@{i}"] else []) ++
    (if m < 0 && (s.mb != 0 || s.lb != 0) then [s!"buys_with_negative_momentum@{i}"] else []) ++
    (if m == 0 && (s.mb + s.ms + s.lb + s.ls) != 0 then [s!"trades_with_zero_momentum@{i}"] else []) ++
    (match e with
     | some (mb, ms', lb, ls) =>
       if (s.mb, s.ms, s.lb, s.ls) != (mb, ms', lb, ls) then [s!"saturated_count_wrong@{i}"] else []
     | none => [])).eraseDups

def handleMom (toks : List String) : List String × List String :=
  match toks with
  | [id, sat, steps, mirror, _kind, tick, _seed, n, decay, ratio, demand, _scale, _pc, _path, offset, _skew] =>
    match (val n).toNat?, parseRat (val decay), parseRat (val ratio), (val tick).toNat?, parseRat (val demand), (val offset).toNat? with
    | some n, some decay, some ratio, some tick, some demand, some offset =>
      -- saturated runs use a scale so large that tanh is exactly 1: the market-order probability is demand / n
      let pm : Rat := demand / (n : Rat)
      let sat := val sat == "1"
      let tail := s!"tr=1 op=momentum_{id}"
      match parseMomSteps (val steps), parseMomSteps (val mirror) with
      | some a, some b =>
        let fa := checkMomRun sat n decay ratio pm a
        let fb := checkMomRun sat n decay ratio pm b
        -- mirrored mids: mid_a + mid_b = 2 · (offset + 500) · tick  (in doubled units: (2000 + 4·offset) · tick)
        let mirrored := a.length == b.length && (a.zip b).all fun (x, y) => x.mid2 + y.mid2 == (2000 + 4 * offset) * tick
        let fm := if mirrored && !((a.zip b).all fun (x, y) => x.mb == y.ms && x.ms == y.mb && x.lb == y.ls && x.ls == y.lb)
                  then ["mirrored_path_flow_not_mirrored"] else []
        let fails := fa ++ fb.map (· ++ "(mirror)") ++ fm
        let trades := (a ++ b).any fun s => s.mb + s.ms + s.lb + s.ls > 0
        (if fails.isEmpty then [] else [s!"A C17 {id} 0 {",".intercalate fails} {tail}"],
         ["mom:run"] ++ (if sat then ["mom:saturated"] else ["mom:unsaturated"]) ++ (if mirrored then ["mom:mirror_compared"] else [])
           ++ (if trades then ["mom:with_orders"] else []))
      | _, _ => ([s!"A C17 {id} 0 agent_aborted {tail}"], ["mom:abort"])
    | _, _, _, _, _, _ => ([s!"BAD mom params {toks}"], [])
  | _ => ([s!"BAD mom line {toks.length}"], [])

end Bourse.Driver
