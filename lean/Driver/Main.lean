/-
Line-protocol driver (compiled `lean_exe`; imports Model + Spec only, no Mathlib).

Reads, on stdin, the stream written by the Rust harness:

  H <hist-id> <profile> book <t0> <tick> <trading> <L>
  I <observation of the real implementation>
  O <operation>
  I <observation of the real implementation after that operation>
  …

and for every history
  * steps the Layer-I model (`Book.step`) and compares its complete observation with the
    implementation's  →  `K` lines on a difference (model-vs-implementation correspondence);
  * steps the reference engine (`Ref.step`) and compares  →  `R` lines
    (implementation-vs-reference-engine, the differential oracle of C01/C05/C06);
  * evaluates the `Audit` predicates on the implementation's observations alone → `A` lines.
-/
import Bourse.Model.Ops
import Bourse.Model.Json
import Bourse.Model.PriceHelpers
import Bourse.Spec.Audit
import Bourse.Spec.Ref
import Driver.Parse
import Driver.EnvDrive
import Driver.ShapeDrive
import Driver.MomDrive
import Driver.FloatDrive
import Driver.AgentDrive
import Std.Data.HashMap
import Std.Data.HashSet

open Bourse Bourse.Driver

structure Hist where
  id      : String
  profile : String
  tick    : Nat
  nLevels : Nat
  model   : Book
  ref     : Ref.RState
  prev    : Option Obs
  opIdx   : Nat
  neverDisabled : Bool
  kDead   : Bool     -- model already diverged: stop comparing
  rDead   : Bool
  pending : Option (Op × String)
  hasTrade : Bool
  hasCancelMod : Bool
  opsHash : UInt64
  nOps    : Nat

structure St where
  hist   : Option Hist
  ehist  : Option EHist
  stats  : Std.HashMap String Nat
  seen   : Std.HashSet UInt64
  nHist  : Nat
  nOps   : Nat
  nNontrivial : Nat
  nK : Nat
  nR : Nat
  nA : Nat

def bump (m : Std.HashMap String Nat) (k : String) : Std.HashMap String Nat :=
  m.insert k (m.getD k 0 + 1)

/-- Branch / situation tags of one operation, derived from the implementation's observations. -/
def tagsOf (prev next : Obs) (op : Op) (res : Res) : List String :=
  let newT := next.trades.drop prev.trades.length
  let st (i : Nat) := (prev.orders[i]?).map (·.status)
  let nst (i : Nat) := (next.orders[i]?).map (·.status)
  let opTag := match op with
    | .create .. => "op:create" | .place _ => "op:place" | .cap .. => "op:cap"
    | .cancel _ => "op:cancel" | .modify .. => "op:modify" | .ev (.new _) => "op:ev-new"
    | .ev (.cancel _) => "op:ev-cancel" | .ev (.modify ..) => "op:ev-modify"
    | .time _ => "op:time" | .trading _ => "op:trading" | .resetVol => "op:resetvol"
    | .reload => "op:reload"
  let tr := if newT.isEmpty then [] else
    ["trade"] ++ (if newT.length ≥ 2 then ["multi_fill"] else []) ++
    (if newT.any (fun t => nst t.passive == some .active) then ["passive_partial"] else []) ++
    (if newT.any (fun t => nst t.passive == some .filled) then ["passive_filled"] else []) ++
    (if newT.any (fun t => nst t.active == some .active) then ["aggressor_remainder_rests"] else []) ++
    (if newT.any (fun t => nst t.active == some .cancelled) then ["market_remainder_discarded"] else []) ++
    (if newT.any (fun t => nst t.active == some .filled) then ["aggressor_filled"] else [])
  let placed := (List.range next.orders.length).filterMap fun i =>
    if (st i == some .new || st i == none) && nst i != some .new then nst i else none
  let pl := placed.map fun s => match s with
    | .active => "placed:rests" | .filled => "placed:filled" | .cancelled => "placed:mkt_cancelled"
    | .rejected => "placed:rejected" | .new => "placed:new"
  let md := match op with
    | .modify i p v | .ev (.modify i p v) =>
      if st i != some .active then ["modify:inactive"] else
      match p, v, prev.orders[i]? with
      | none, none, _ => ["modify:nothing"]
      | none, some v, some o => if v < o.vol then ["modify:reduce_in_place"]
                                else if v = o.vol then ["modify:requeue_equal_vol"] else ["modify:requeue_larger"]
      | some _, _, _ => ["modify:reprice"]
      | _, _, _ => []
    | .cancel i | .ev (.cancel i) =>
      if st i == some .active then ["cancel:active"] else ["cancel:noop"]
    | .place i | .ev (.new i) => if st i == some .new then [] else ["place:noop"]
    | _ => []
  let rs := match res with
    | .err .. => ["create:rejected"] | .panic => ["PANIC"] | _ => []
  let crossed := if decide (next.bidAsk.1 ≥ next.bidAsk.2) && next.vols.1 > 0 && next.vols.2 > 0
                 then ["book_crossed"] else []
  [opTag] ++ tr ++ pl ++ md ++ rs ++ crossed ++ (if prev.trading then [] else ["trading_off"])

def auditsFor (profile : String) : List String :=
  if profile == "invalid" then []
  else if profile == "malformed" then ["C12"]
  else ["C02", "C03", "C04", "C06", "C12", "C13"]

def emit (out : IO.FS.Stream) (s : String) : IO Unit := out.putStrLn s

def finishHist (st : St) : St :=
  let st := match st.ehist with
    | none => st
    | some h => { st with ehist := none, nHist := st.nHist + 1,
                          nNontrivial := st.nNontrivial + (if h.nSteps ≥ 2 || h.kind == "market" then 1 else 0) }
  match st.hist with
  | none => st
  | some h =>
    let nontriv := h.hasTrade && h.hasCancelMod
    let fresh := !st.seen.contains h.opsHash
    { st with hist := none, nHist := st.nHist + 1,
              seen := st.seen.insert h.opsHash,
              nNontrivial := st.nNontrivial + (if nontriv && fresh then 1 else 0) }

def handleHeader (st : St) (toks : List String) (out : IO.FS.Stream) : IO St := do
  let st := finishHist st
  match toks with
  | [hid, profile, "book", t0, tick, trading, l] =>
    match t0.toNat?, tick.toNat?, parseBool trading, l.toNat? with
    | some t0, some tick, some trading, some l =>
      let h : Hist := { id := hid, profile := profile, tick := tick, nLevels := l,
                        model := Book.new t0 tick trading, ref := Ref.init t0 tick trading,
                        prev := none, opIdx := 0, neverDisabled := trading, kDead := false,
                        rDead := false, pending := none, hasTrade := false, hasCancelMod := false,
                        opsHash := hash (String.intercalate " " toks), nOps := 0 }
      pure { st with hist := some h }
    | _, _, _, _ => emit out s!"BAD header {toks}"; pure st
  | _ =>
    match newEHist toks with
    | some h => pure { st with ehist := some h }
    | none => emit out s!"BAD header {toks}"; pure st

def handleObs (st : St) (toks : List String) (out : IO.FS.Stream) : IO St := do
  match st.hist with
  | none => emit out "BAD obs without history"; pure st
  | some h =>
    match parseObs toks with
    | none => emit out s!"BAD obs {h.id} {h.opIdx}"; pure st
    | some (res, impl, sh) =>
      match h.pending with
      | none =>
        -- initial observation
        let mo := h.model.observe h.nLevels
        let hd := hiddenDiff h.model (hiddenOf toks)
        let mut st := st
        if mo != impl || !hd.isEmpty then
          emit out s!"K {h.id} init {",".intercalate (diffObs mo impl ++ hd)}"
          st := { st with nK := st.nK + 1 }
        pure { st with hist := some { h with prev := some impl, kDead := mo != impl || !hd.isEmpty } }
      | some (op, opLine) =>
        let prev := h.prev.getD impl
        let mut st := st
        let mut h := h
        -- Layer I model
        -- `jump k`: the snapshot with every stamp moved up by `k` is loaded (`Book.reloadShift`)
        let jumpK : Option Nat := if opLine.startsWith "jump_" then (opLine.drop 5).toNat? else none
        let (m', mres) := match jumpK with
          | some k => ((if h.model.faulted then h.model else h.model.reloadShift k), Res.unit)
          | none => h.model.step op
        let mo := m'.observe h.nLevels
        if !h.kDead then
          if res == .panic then
            if !m'.faulted then
              emit out s!"K {h.id} {h.opIdx} fault:impl=PANIC,model=ok tr={if prev.trading then 1 else 0} op={opLine}"
              st := { st with nK := st.nK + 1 }
            h := { h with kDead := true }
          else if m'.faulted then
            emit out s!"K {h.id} {h.opIdx} fault:impl=ok,model=FAULT tr={if prev.trading then 1 else 0} op={opLine}"
            st := { st with nK := st.nK + 1 }
            h := { h with kDead := true }
          else if mo != impl || mres != res || !(hiddenDiff m' (hiddenOf toks)).isEmpty then
            let fields := diffObs mo impl ++ (if mres != res then ["result"] else []) ++ hiddenDiff m' (hiddenOf toks)
            emit out s!"K {h.id} {h.opIdx} {",".intercalate fields} tr={if prev.trading then 1 else 0} op={opLine}"
            st := { st with nK := st.nK + 1 }
            h := { h with kDead := true }
        -- reference engine
        let (r', rres) := Ref.step h.ref op
        let ro := Ref.observe r' h.nLevels
        if !h.rDead && h.profile != "invalid" && res != .panic then
          if ro != impl || rres != res then
            let fields := diffObs ro impl ++ (if rres != res then ["result"] else [])
            emit out s!"R {h.id} {h.opIdx} {",".intercalate fields} tr={if prev.trading then 1 else 0} op={opLine}"
            st := { st with nR := st.nR + 1 }
            h := { h with rDead := true }
        -- lock-step shadow of a snapshot reload (C07): reported by the harness
        if sh != "ok" then
          emit out s!"A C07 {h.id} {h.opIdx} reload_{sh} tr={if prev.trading then 1 else 0} op={opLine}"
          st := { st with nA := st.nA + 1 }
        -- audits on the implementation's own observations
        let neverDisabled := h.neverDisabled && impl.trading && prev.trading
        if res != .panic then
          for a in auditsFor h.profile do
            let fails : List String :=
              if a == "C02" then Audit.c02Views h.tick h.nLevels impl ++
                -- a resting zero-volume order may sit inside the opposite side (nothing can trade with it): the
                -- "never crossed" clause presupposes positive volumes
                (if h.profile == "unusual" then [] else Audit.c02Uncrossed neverDisabled impl)
              else if a == "C03" then
                -- `unusual` histories carry zero-volume orders, whose fills have volume 0 (C01's fill rule); C03's
                -- "positive volume" presupposes positive order volumes
                (Audit.c03Ledger prev impl op).filter fun c => !(h.profile == "unusual" && c == "trade_positive")
              else if a == "C04" then Audit.c04Lifecycle prev impl ++ Audit.c04Noop prev impl op
              else if a == "C06" then Audit.c06Modify h.tick prev impl op
              else if a == "C12" then Audit.c12Grid h.tick h.nLevels prev impl op res
              else if a == "C13" then Audit.c13NoTrading prev impl op
              else []
            if !fails.isEmpty then
              emit out s!"A {a} {h.id} {h.opIdx} {",".intercalate fails} tr={if prev.trading then 1 else 0} op={opLine}"
              st := { st with nA := st.nA + 1 }
          -- the book's own trading flag (read from its snapshot state) is the one last requested
          match op, hiddenOf toks with
          | .trading on, some hs =>
            if (splitC hs "/").length == 3 && (splitC hs "/")[1]? != some (if on then "1" else "0") then
              emit out s!"A C13 {h.id} {h.opIdx} flag_in_snapshot_not_switched tr={if prev.trading then 1 else 0} op={opLine}"
              st := { st with nA := st.nA + 1 }
          | _, _ => pure ()
        -- statistics
        let tags := tagsOf prev impl op res
        let mut stats := st.stats
        for t in tags do stats := bump stats t
        let hasTrade := h.hasTrade || tags.contains "trade"
        let hasCM := h.hasCancelMod || tags.contains "cancel:active" || tags.contains "modify:reduce_in_place"
                      || tags.contains "modify:reprice" || tags.contains "modify:requeue_equal_vol"
                      || tags.contains "modify:requeue_larger"
        let h' := { h with model := m', ref := r', prev := some impl, opIdx := h.opIdx + 1,
                           neverDisabled := neverDisabled, pending := none, hasTrade := hasTrade,
                           hasCancelMod := hasCM, nOps := h.nOps + 1 }
        pure { st with hist := some h', stats := stats, nOps := st.nOps + 1 }

def hexVal (c : Char) : Option Nat :=
  if '0' ≤ c ∧ c ≤ '9' then some (c.toNat - 48)
  else if 'a' ≤ c ∧ c ≤ 'f' then some (c.toNat - 87)
  else none

def unhexAux : List Char → List Char → Option (List Char)
  | [], acc => some acc.reverse
  | [_], _ => none
  | a :: b :: r, acc =>
    match hexVal a, hexVal b with
    | some x, some y => unhexAux r (Char.ofNat (16 * x + y) :: acc)
    | _, _ => none

/-- `-` is the empty text; otherwise two hex digits per byte (the snapshot texts are ASCII). -/
def unhex (s : String) : Option (List Char) :=
  if s == "-" then some [] else unhexAux s.toList []

/-- `J` lines (after a `reload`): the JSON text the real `serde_json` wrote for the current book and
the real loader's verdict on variants of it, compared with `Model/Json.lean`. -/
def handleJson (st : St) (toks : List String) (out : IO.FS.Stream) : IO St := do
  match st.hist with
  | none =>
    -- a multi-asset market file (`J m` / `J mv` lines after a market-level reload)
    match st.ehist with
    | none => pure st
    | some eh =>
      if eh.kDead || eh.kind != "market" then pure st else
      let idx := eh.opIdx - 1
      let bad (what : String) : IO St := do
        emit out s!"K {eh.id} {idx} {what} tr=1 op=mop:reload_json"
        pure { st with nK := st.nK + 1 }
      let books := eh.market.books
      match toks with
      | ["m", m, hx] =>
        match unhex hx with
        | none => bad "json_badhex"
        | some text =>
          if Json.saveMarketText books (m == "p") != text then
            bad (if m == "p" then "json_market_text_pretty" else "json_market_text_compact")
          else if Json.loadMarketText books.length text != some books then bad "json_market_load_of_own_text"
          else pure { st with stats := bump st.stats (if m == "p" then "json:market_text_pretty_equal" else "json:market_text_compact_equal") }
      | ["mv", kind, verdict, hx] =>
        match unhex hx with
        | none => bad "json_badhex"
        | some text =>
          let r := Json.loadMarketText books.length text
          let st := { st with stats := bump st.stats s!"json:market_variant_{kind}_{verdict}" }
          if verdict == "panic" then pure st
          else if verdict == "ok" then do
            let st ← (if kind == "cut" then do
                emit out s!"A C07 {eh.id} {idx} truncated_market_snapshot_loaded tr=1 op=mop:reload_json"
                pure { st with nA := st.nA + 1 }
              else pure st)
            if r.isNone then bad s!"json_market_variant_{kind}:impl=ok:model=reject" else pure st
          else if r.isSome then bad s!"json_market_variant_{kind}:impl=err:model=ok"
          else pure st
      | _ => bad "json_badline"
  | some h =>
    if h.kDead then pure st else
    let idx := h.opIdx - 1
    let bad (what : String) : IO St := do
      emit out s!"K {h.id} {idx} {what} tr=1 op=reload_json"
      pure { st with nK := st.nK + 1 }
    match toks with
    | ["t", m, hx] =>
      match unhex hx with
      | none => bad "json_badhex"
      | some text =>
        let mine := Json.saveText h.model (m == "p")
        if mine != text then bad (if m == "p" then "json_text_pretty" else "json_text_compact")
        else if Json.loadText text != some h.model then bad "json_load_of_own_text"
        else pure { st with stats := bump st.stats (if m == "p" then "json:text_pretty_equal" else "json:text_compact_equal") }
    | ["v", kind, verdict, hx, back] =>
      match unhex hx, unhex back with
      | some text, some backText =>
        let r := Json.loadText text
        let st := { st with stats := bump st.stats s!"json:variant_{kind}_{verdict}" }
        if verdict == "panic" then pure st
        else if verdict == "ok" then
          let st ← (if kind == "cut" then do
              emit out s!"A C07 {h.id} {idx} truncated_snapshot_loaded tr=1 op=reload_json"
              pure { st with nA := st.nA + 1 }
            else pure st)
          match r with
          | none => bad s!"json_variant_{kind}:impl=ok:model=reject"
          | some b => if Json.saveText b false != backText then bad s!"json_variant_{kind}:loaded_book_differs" else pure st
        else if r.isSome then bad s!"json_variant_{kind}:impl=err:model=ok"
        else pure st
      | _, _ => bad "json_badhex"
    | _ => bad "json_badline"

/-- `PH` lines: the real `f64` price helpers on a dyadic input against `Model/PriceHelpers.lean`. -/
def handlePH (toks : List String) : List String × List String :=
  match toks with
  | [hid, tick, mid2, dist, down, up, buy, sell, mbuy, msell] =>
    match tick.toNat?, mid2.toNat? with
    | some tick, some mid2 =>
      let mid : Rat := mkRat mid2 2
      let d : Option (Option Rat) := if dist == "inf" then some none else (parseRat dist).map some
      match d with
      | none => ([s!"BAD ph {hid}"], [])
      | some d =>
        let absd := d.map Helpers.absR
        let mDown := Helpers.roundPriceDown (absd.map fun a => mid - a) tick
        -- `mid - inf = -inf` rounds and clamps to 0
        let mDown := if d.isNone then 0 else mDown
        let mUp := Helpers.roundPriceUp (absd.map fun a => mid + a) tick
        let mBuy := toString (Helpers.buyPrice mid d tick)
        let mSell := toString (Helpers.sellPrice mid d tick)
        let bad := (if toString mDown != down then ["round_price_down"] else []) ++
                   (if toString mUp != up then ["round_price_up"] else []) ++
                   (if mBuy != buy then ["place_buy_limit_order"] else []) ++
                   (if mSell != sell then ["place_sell_limit_order"] else []) ++
                   (if mBuy != mbuy then ["place_buy_limit_order_market"] else []) ++
                   (if mSell != msell then ["place_sell_limit_order_market"] else [])
        -- the property's own clauses on the implementation's output (mid at least a tick below MAX)
        let onGrid (s : String) : Bool := match s.toNat? with | some p => p % tick == 0 | none => false
        let aud := (if onGrid buy && onGrid mbuy then [] else ["buy_off_grid_or_rejected"]) ++
                   (if onGrid sell && onGrid msell then [] else ["sell_off_grid_or_rejected"]) ++
                   (match buy.toNat? with | some p => if (p : Rat) ≤ mid then [] else ["buy_above_mid"] | none => []) ++
                   (match sell.toNat? with
                    | some p => if mid + (tick : Rat) ≤ (MAXP : Rat) && (p : Rat) < mid then ["sell_below_mid"] else []
                    | none => [])
        let cfg := s!"tick={tick}_mid2={mid2}_dist={dist}"
        ((if bad.isEmpty then [] else [s!"K {hid} 0 {",".intercalate bad} tr=1 op={cfg}"]) ++
         (if aud.isEmpty then [] else [s!"A C16 {hid} 0 {",".intercalate aud} tr=1 op={cfg}"]),
         ["ph:" ++ (if dist == "inf" then "inf" else if mDown == 0 then "buy_clamped_0" else if mUp == MAXP then "sell_clamped_max" else "plain")])
    | _, _ => ([s!"BAD ph {hid}"], [])
  | _ => (["BAD ph"], [])

partial def loop (inp out : IO.FS.Stream) (st : St) : IO St := do
  let line ← inp.getLine
  if line.isEmpty then return finishHist st
  let toks := (line.trimAscii.toString.splitOn " ").filter (· != "")
  match toks with
  | "H" :: rest => loop inp out (← handleHeader st rest out)
  | "O" :: rest =>
    match st.ehist with
    | some eh =>
      let opLine := "_".intercalate rest
      if eh.kind == "sim" then loop inp out st
      else if eh.fagent.isSome && (rest.head? == some "update" || rest.head? == some "xstep") then
        loop inp out { st with ehist := some { eh with pendingX := some rest } }
      else if eh.kind == "market" then
        match parseMOp rest with
        | some op => loop inp out { st with ehist := some { eh with pendingM := some (op, opLine) } }
        | none => emit out s!"BAD op {rest}"; loop inp out st
      else
        match parseEOp rest with
        | some op => loop inp out { st with ehist := some { eh with pendingE := some (op, opLine) } }
        | none => emit out s!"BAD op {rest}"; loop inp out st
    | none =>
    match st.hist, parseOp rest with
    | some h, some op =>
      let opLine := " ".intercalate rest
      let h := { h with pending := some (op, "_".intercalate rest),
                        opsHash := mixHash h.opsHash (hash opLine) }
      loop inp out { st with hist := some h }
    | _, _ => emit out s!"BAD op {rest}"; loop inp out st
  | "I" :: rest =>
    match st.ehist with
    | some eh =>
      let (eh', lines, tags) :=
        match eh.pendingX, eh.fagent, parseEnvLine true rest with
        | some toks, some ag, some ln =>
          let o := handleAgentOp eh.id eh.opIdx eh.ticks eh.nLevels ag eh.env eh.rng eh.kDead eh.prevB eh.prevE toks ln
          ({ eh with fagent := some o.st, env := o.env, rng := o.rng, kDead := o.kDead, prevB := ln.books, prevE := ln.envs,
                     opIdx := eh.opIdx + 1, pendingX := none,
                     nSteps := eh.nSteps + (if toks.head? == some "xstep" then 1 else 0) }, o.lines, o.tags)
        | some _, _, _ => ({ eh with pendingX := none, kDead := true }, [s!"BAD agent observation {eh.id} {eh.opIdx}"], [])
        | none, _, _ => handleEnvObs eh rest
      for l in lines do emit out l
      let mut stats := st.stats
      for t in tags do stats := bump stats t
      let nK := lines.filter (·.startsWith "K ") |>.length
      let nA := lines.filter (·.startsWith "A ") |>.length
      loop inp out { st with ehist := some eh', stats := stats, nOps := st.nOps + (if tags.isEmpty then 0 else 1),
                             nK := st.nK + nK, nA := st.nA + nA }
    | none => loop inp out (← handleObs st rest out)
  | "J" :: rest => loop inp out (← handleJson st rest out)
  | "PH" :: rest =>
    let st := finishHist st
    let (lines, tags) := handlePH rest
    for l in lines do emit out l
    let mut stats := st.stats
    for t in tags do stats := bump stats t
    loop inp out { st with stats := stats, nHist := st.nHist + 1, nOps := st.nOps + 1,
                           nK := st.nK + (lines.filter (·.startsWith "K ")).length,
                           nA := st.nA + (lines.filter (·.startsWith "A ")).length }
  | "L" :: hid :: _steps :: instr :: verdict :: _ =>
    -- a long environment run judged in the harness by the model-free oracles (shadow replay, one shuffle per step)
    let st := finishHist st
    let nInstr := (val instr).toNat?.getD 0
    let lines : List String :=
      if verdict == "ok" then []
      else
        let what := (verdict.drop 4).toString
        let clauses := ((what.splitOn "@").headD what).splitOn "+"
        clauses.map fun clause =>
          let aud := if clause.startsWith "generator" then "RNG" else if clause.startsWith "record_" then "C11"
                     else if clause.startsWith "cache_" then "C10" else "SH"
          s!"A {aud} {hid} 0 {clause} tr=1 op=step"
    for l in lines do emit out l
    loop inp out { st with stats := bump (bump st.stats "long:histories") (if nInstr > 1024 then "long:more_than_1024_instructions" else "long:short"),
                           nHist := st.nHist + 1, nOps := st.nOps + nInstr, nNontrivial := st.nNontrivial + 1,
                           nA := st.nA + lines.length }
  | "FO" :: rest =>
    let st := finishHist st
    let (lines, tags) := handleFO rest
    for l in lines do emit out l
    let mut stats := st.stats
    for t in tags do stats := bump stats t
    loop inp out { st with stats := stats, nHist := st.nHist + 1, nOps := st.nOps + 1,
                           nK := st.nK + (lines.filter (·.startsWith "K ")).length }
  | "MM" :: rest =>
    let st := finishHist st
    let (lines, tags) := handleMom rest
    for l in lines do emit out l
    let mut stats := st.stats
    for t in tags do stats := bump stats t
    loop inp out { st with stats := stats, nHist := st.nHist + 1, nOps := st.nOps + 1,
                           nNontrivial := st.nNontrivial + (if tags.contains "mom:with_orders" then 1 else 0),
                           nA := st.nA + (lines.filter (·.startsWith "A ")).length }
  | "S" :: rest =>
    let st := finishHist st
    let (lines, tags) := handleShape rest
    for l in lines do emit out l
    let mut stats := st.stats
    for t in tags do stats := bump stats t
    loop inp out { st with stats := stats, nHist := st.nHist + 1, nOps := st.nOps + 1, nNontrivial := st.nNontrivial + 1,
                           nK := st.nK + (lines.filter (·.startsWith "K ")).length,
                           nA := st.nA + (lines.filter (·.startsWith "A ")).length }
  | [] => loop inp out st
  | _ => emit out s!"BAD line {line}"; loop inp out st

def main : IO UInt32 := do
  let inp ← IO.getStdin
  let out ← IO.getStdout
  let st0 : St := { hist := none, ehist := none, stats := {}, seen := {}, nHist := 0, nOps := 0, nNontrivial := 0,
                    nK := 0, nR := 0, nA := 0 }
  let st ← loop inp out st0
  for (k, v) in st.stats.toList do
    emit out s!"STAT {k} {v}"
  emit out s!"DONE histories={st.nHist} distinct={st.seen.size} nontrivial_distinct={st.nNontrivial} ops={st.nOps} K={st.nK} R={st.nR} A={st.nA}"
  return 0
