/-
Driver for the `f64` model: `FO` lines carry one hardware operation (operands and result as bit
patterns); the model recomputes it with exact rationals and `F64.rnd`.
-/
import Bourse.Model.F64

namespace Bourse.Driver
open Bourse

def showF : F → String
  | .fin r => s!"{r.num}/{r.den}"
  | .pinf => "inf"
  | .ninf => "-inf"
  | .nan => "nan"

/-- `FO <id> <op> <a> <b> <result>` (bit patterns in decimal). -/
def handleFO (toks : List String) : List String × List String :=
  match toks with
  | [hid, op, a, b, r] =>
    match a.toNat?, b.toNat?, r.toNat? with
    | some a, some b, some r =>
      let fa := F64.ofBits a
      let fb := F64.ofBits b
      let want := F64.ofBits r
      let got : Option F := match op with
        | "add" => some (F64.add fa fb)
        | "sub" => some (F64.sub fa fb)
        | "mul" => some (F64.mul fa fb)
        | "div" => some (F64.div fa fb)
        | "floor" => some (F64.floor fa)
        | "ceil" => some (F64.ceil fa)
        | _ => none
      match got with
      | none => ([s!"BAD fo {hid}"], [])
      | some got =>
        let cls := match want with | .fin r => (if r = 0 then "zero" else "finite") | .nan => "nan" | _ => "inf"
        ((if got == want then [] else [s!"K {hid} 0 f64_{op} tr=1 op={op}_{a}_{b}_impl={showF want}_model={showF got}"]),
         [s!"fo:{op}:{cls}"])
    | _, _, _ => ([s!"BAD fo {hid}"], [])
  | _ => (["BAD fo"], [])

end Bourse.Driver
