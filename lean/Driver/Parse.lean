/-
Line-protocol parsing and printing shared by the driver modes.
One text representation everywhere: ASCII, space separated, `-` for `None`,
sides `b`/`a`, statuses `N A F C R`, decimal integers.
-/
import Bourse.Model.Ops

namespace Bourse.Driver

def parseSide : String → Option Side
  | "b" => some .bid
  | "a" => some .ask
  | _ => none

def parseStatus : String → Option Status
  | "N" => some .new | "A" => some .active | "F" => some .filled
  | "C" => some .cancelled | "R" => some .rejected | _ => none

def optNat (s : String) : Option (Option Nat) :=
  if s == "-" then some none else s.toNat?.map some

def parseBool : String → Option Bool
  | "0" => some false | "1" => some true | _ => none

def parseEvent : List String → Option Event
  | ["new", i] => i.toNat?.map .new
  | ["cancel", i] => i.toNat?.map .cancel
  | ["modify", i, p, v] => do
      let i ← i.toNat?; let p ← optNat p; let v ← optNat v
      pure (.modify i p v)
  | _ => none

def parseOp : List String → Option Op
  | ["create", sd, vol, tr, p] => do
      pure (.create (← parseSide sd) (← vol.toNat?) (← tr.toNat?) (← optNat p))
  | ["cap", sd, vol, tr, p] => do
      pure (.cap (← parseSide sd) (← vol.toNat?) (← tr.toNat?) (← optNat p))
  | ["place", i] => i.toNat?.map .place
  | ["cancel", i] => i.toNat?.map .cancel
  | ["modify", i, p, v] => do pure (.modify (← i.toNat?) (← optNat p) (← optNat v))
  | "ev" :: rest => (parseEvent rest).map .ev
  | ["time", t] => t.toNat?.map .time
  | ["trading", b] => (parseBool b).map .trading
  | ["resetvol"] => some .resetVol
  | ["reload", _] => some .reload
  | ["jump", _] => some .reload   -- the shift amount is read from the op line (`Main.handleObs`)
  | _ => none

def splitC (s : String) (c : String) : List String := s.splitOn c

def parsePair (s : String) : Option (Nat × Nat) :=
  match splitC s "," with
  | [a, b] => do pure (← a.toNat?, ← b.toNat?)
  | _ => none

def parseVN (s : String) : Option (Nat × Nat) :=
  match splitC s ":" with
  | [a, b] => do pure (← a.toNat?, ← b.toNat?)
  | _ => none

def parseList {α} (f : String → Option α) (s : String) : Option (List α) :=
  if s == "-" then some [] else (splitC s ";").mapM f

def parseOrder (s : String) : Option Order :=
  match splitC s ":" with
  | [id, sd, st, arr, en, vol, svol, price, tr] => do
      pure { id := ← id.toNat?, side := ← parseSide sd, status := ← parseStatus st,
             arr := ← arr.toNat?, endt := ← en.toNat?, vol := ← vol.toNat?, svol := ← svol.toNat?,
             price := ← price.toNat?, trader := ← tr.toNat? }
  | _ => none

def parseTrade (s : String) : Option Trade :=
  match splitC s ":" with
  | [t, sd, p, v, a, pa] => do
      pure { t := ← t.toNat?, side := ← parseSide sd, price := ← p.toNat?, vol := ← v.toNat?,
             active := ← a.toNat?, passive := ← pa.toNat? }
  | _ => none

def parseL1 (s : String) : Option Level1 :=
  match (splitC s ",").mapM String.toNat? with
  | some [a, b, c, d, e, f, g, h] =>
      some { bidPrice := a, askPrice := b, bidVol := c, askVol := d, bidTouchVol := e,
             askTouchVol := f, bidTouchOrders := g, askTouchOrders := h }
  | _ => none

def parseL2 (s : String) : Option Level2 :=
  match splitC s "/" with
  | [hd, bl, al] =>
    match (splitC hd ",").mapM String.toNat? with
    | some [a, b, c, d] => do
        pure { bidPrice := a, askPrice := b, bidVol := c, askVol := d,
               bidLevels := ← parseList parseVN bl, askLevels := ← parseList parseVN al }
    | _ => none
  | _ => none

def parseRes (s : String) : Option Res :=
  match splitC s ":" with
  | ["u"] => some .unit
  | ["ok", i] => i.toNat?.map .ok
  | ["err", p, t] => do pure (.err (← p.toNat?) (← t.toNat?))
  | ["PANIC"] => some .panic
  | _ => none

/-- value part of a `key=value` token -/
def val (tok : String) : String :=
  match splitC tok "=" with
  | [_, v] => v
  | _ => ""

/-- The `hs=` token: the state only a snapshot shows (next queue stamp, trading flag, every record's queue key),
as the real book's own `Serialize` output carries it. It is compared with the model's state as text; the
observation record `Obs` (what the getters show, and what the reference engine is compared on) does not hold it. -/
def isHidden (t : String) : Bool := t.startsWith "hs="
def hiddenOf (toks : List String) : Option String := (toks.find? isHidden).map val

def showHidden (b : Book) : String :=
  let ks := if b.orders.isEmpty then "-"
            else ";".intercalate (b.orders.map fun e => s!"{if e.key.side == .bid then "b" else "a"}:{e.key.pk}:{e.key.st}")
  s!"{b.stamp}/{if b.trading then 1 else 0}/{ks}"

/-- `["hidden_state"]` when the implementation reported its hidden state and it is not the model's. -/
def hiddenDiff (b : Book) (h : Option String) : List String :=
  match h with
  | none => []
  | some s => if s == showHidden b then [] else ["hidden_state"]

def hiddenDiffs (bs : List Book) (hs : List (Option String)) : List String :=
  ((bs.zip hs).flatMap fun (b, h) => hiddenDiff b h).eraseDups

/-- A submission between steps leaves the hidden state alone: same stamp counter, same flag, the keys of the
existing records unchanged (a successful placement adds one record). -/
def hiddenUntouched (prev next : Option String) (mayAppend : Bool) (flagMayChange : Bool) : Bool :=
  match prev, next with
  | some p, some n =>
    match splitC p "/", splitC n "/" with
    | [pq, pt, pk], [nq, nt, nk] =>
      let pks := if pk == "-" then [] else splitC pk ";"
      let nks := if nk == "-" then [] else splitC nk ";"
      pq == nq && (flagMayChange || pt == nt) &&
        (nks == pks || (mayAppend && nks.length == pks.length + 1 && nks.take pks.length == pks))
    | _, _ => true      -- the snapshot has another form (`?`): nothing to judge here; the correspondence reports it
  | _, _ => true

/-- Parse the tokens of an observation line (after the leading `I`). -/
def parseObsCore : List String → Option (Res × Obs × String)
  | [r, t, tr, tv, ba, v, bb, ab, bv, bl, al, l1, l2, mid, o, x, sh] => do
      let res ← parseRes (val r)
      let mid2 : Option Nat ← if val mid == "X" then some none else (val mid).toNat?.map some
      let obs : Obs := {
        t := ← (val t).toNat?, trading := ← parseBool (val tr), tradeVol := ← (val tv).toNat?,
        bidAsk := ← parsePair (val ba), vols := ← parsePair (val v),
        bidBest := ← parsePair (val bb), askBest := ← parsePair (val ab),
        bestVols := ← parsePair (val bv),
        bidLevels := ← parseList parseVN (val bl), askLevels := ← parseList parseVN (val al),
        l1 := ← parseL1 (val l1), l2 := ← parseL2 (val l2),
        mid2 := mid2,
        orders := ← parseList parseOrder (val o), trades := ← parseList parseTrade (val x) }
      pure (res, obs, val sh)
  | _ => none

def parseObs (toks : List String) : Option (Res × Obs × String) := parseObsCore (toks.filter (!isHidden ·))

/-! ### Printing (same format) -/

def showSide : Side → String | .bid => "b" | .ask => "a"
def showStatus : Status → String
  | .new => "N" | .active => "A" | .filled => "F" | .cancelled => "C" | .rejected => "R"
def showPair (p : Nat × Nat) : String := s!"{p.1},{p.2}"
def showVNs (l : List (Nat × Nat)) : String :=
  if l.isEmpty then "-" else ";".intercalate (l.map fun p => s!"{p.1}:{p.2}")
def showOrder (o : Order) : String :=
  s!"{o.id}:{showSide o.side}:{showStatus o.status}:{o.arr}:{o.endt}:{o.vol}:{o.svol}:{o.price}:{o.trader}"
def showTrade (t : Trade) : String :=
  s!"{t.t}:{showSide t.side}:{t.price}:{t.vol}:{t.active}:{t.passive}"
def showRes : Res → String
  | .unit => "u" | .ok i => s!"ok:{i}" | .err p t => s!"err:{p}:{t}" | .panic => "PANIC"
def showL1 (l : Level1) : String :=
  s!"{l.bidPrice},{l.askPrice},{l.bidVol},{l.askVol},{l.bidTouchVol},{l.askTouchVol},{l.bidTouchOrders},{l.askTouchOrders}"
def showL2 (l : Level2) : String :=
  s!"{l.bidPrice},{l.askPrice},{l.bidVol},{l.askVol}/{showVNs l.bidLevels}/{showVNs l.askLevels}"
def showObs (r : Res) (o : Obs) : String :=
  let os := if o.orders.isEmpty then "-" else ";".intercalate (o.orders.map showOrder)
  let ts := if o.trades.isEmpty then "-" else ";".intercalate (o.trades.map showTrade)
  let mid := match o.mid2 with | some m => toString m | none => "X"
  s!"r={showRes r} t={o.t} tr={if o.trading then 1 else 0} tv={o.tradeVol} ba={showPair o.bidAsk} v={showPair o.vols} bb={showPair o.bidBest} ab={showPair o.askBest} bv={showPair o.bestVols} bl={showVNs o.bidLevels} al={showVNs o.askLevels} l1={showL1 o.l1} l2={showL2 o.l2} mid2={mid} o={os} x={ts}"

/-- Names of the observation fields on which two observations differ. -/
def diffObs (a b : Obs) : List String :=
  (if a.t != b.t then ["t"] else []) ++
  (if a.trading != b.trading then ["trading"] else []) ++
  (if a.tradeVol != b.tradeVol then ["trade_vol"] else []) ++
  (if a.bidAsk != b.bidAsk then ["bid_ask"] else []) ++
  (if a.vols != b.vols then ["vols"] else []) ++
  (if a.bidBest != b.bidBest then ["bid_best"] else []) ++
  (if a.askBest != b.askBest then ["ask_best"] else []) ++
  (if a.bestVols != b.bestVols then ["best_vols"] else []) ++
  (if a.bidLevels != b.bidLevels then ["bid_levels"] else []) ++
  (if a.askLevels != b.askLevels then ["ask_levels"] else []) ++
  (if a.l1 != b.l1 then ["level1"] else []) ++
  (if a.l2 != b.l2 then ["level2"] else []) ++
  (if a.mid2 != b.mid2 then ["mid"] else []) ++
  (if a.orders != b.orders then ["orders"] else []) ++
  (if a.orders.map (·.status) != b.orders.map (·.status) then ["orders.status"] else []) ++
  (if a.orders.map (·.vol) != b.orders.map (·.vol) then ["orders.vol"] else []) ++
  (if a.orders.map (·.price) != b.orders.map (·.price) then ["orders.price"] else []) ++
  (if a.orders.map (fun o => (o.arr, o.endt)) != b.orders.map (fun o => (o.arr, o.endt)) then ["orders.times"] else []) ++
  (if a.orders.map (fun o => (o.id, o.side, o.trader, o.svol)) != b.orders.map (fun o => (o.id, o.side, o.trader, o.svol)) then ["orders.ident"] else []) ++
  (if a.trades != b.trades then ["trades"] else [])

end Bourse.Driver
