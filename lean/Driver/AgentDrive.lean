/-
Driver for float-exact agent histories (`agentx` profile): the real noise / momentum agent updates
the real environment; the model (`Model/FloatAgents.lean`) must predict the generator state after
the update, every order the agent created, and — through the observation after the following step —
everything it queued. `LogNormal::sample` and `tanh` come as tables recorded by the harness.
-/
import Bourse.Model.FloatAgents
import Bourse.Spec.Audit
import Driver.AgentCfg
import Driver.EnvDrive

open Bourse Bourse.Driver

namespace Bourse.Driver

structure SmpEntry where
  key : Nat
  v   : Nat
  n   : Nat

def parseSmp (s : String) : Option (List SmpEntry) :=
  if s == "-" then some [] else
  (s.splitOn ",").mapM fun e =>
    match e.splitOn ":" with
    | [k, v, n, _] => do pure { key := ← k.toNat?, v := ← v.toNat?, n := ← n.toNat? }
    | _ => none

def advance : Nat → Xoro → Xoro
  | 0, g => g
  | n + 1, g => advance n g.next.2

/-- The sampler given by the recorded table: keyed by the next output of the generator state. -/
def tableSampler (tab : List SmpEntry) : FAgents.Sampler := fun g =>
  match tab.find? (fun e => e.key == g.next.1.toNat) with
  | some e => (F64.ofBits e.v, advance e.n g)
  | none => (.nan, g)

def tableTanh (tab : Option (Nat × Nat)) : F → F := fun x =>
  match tab with
  | some (xb, yb) => if F64.ofBits xb == x then F64.ofBits yb else .nan
  | none => .nan

def parseTh (s : String) : Option (Option (Nat × Nat)) :=
  if s == "-" then some none else
  match s.splitOn ":" with
  | [a, b] => do pure (some (← a.toNat?, ← b.toNat?))
  | _ => none

def isMarketOrder (o : Order) : Bool := (o.side == .bid && o.price == MAXP) || (o.side == .ask && o.price == 0)

/-- C16 on the implementation's own observations around one `update`: what appeared in the book of
the agent's asset must be new orders of its own traders, with the configured volume, limit prices on
the grid and on the right side of the mid-price observed before; nothing else may change. -/
def c16Update (cfg : FCfg) (a : Nat) (prevB nextB : Obs) : List String :=
  let newOs := nextB.orders.drop prevB.orders.length
  let mid2 := prevB.bidAsk.1 + prevB.bidAsk.2
  let tick := cfg.tick
  if a != cfg.asset then Audit.chk "other_asset_changed" (nextB == prevB)
  else
    Audit.chk "touched_existing_state" (nextB == { prevB with orders := prevB.orders ++ newOs }) ++
    Audit.chk "foreign_trader_id" (newOs.all fun o => cfg.traders.contains o.trader) ++
    Audit.chk "wrong_volume_or_status" (newOs.all fun o => o.vol == cfg.vol && o.svol == cfg.vol && o.status == .new) ++
    Audit.chk "limit_price_off_grid" (newOs.all fun o => isMarketOrder o || o.price % tick == 0) ++
    Audit.chk "buy_above_observed_mid" (newOs.all fun o => isMarketOrder o || o.side != .bid || 2 * o.price ≤ mid2) ++
    Audit.chk "sell_below_observed_mid" (newOs.all fun o => isMarketOrder o || o.side != .ask ||
        mid2 + 2 * tick > 2 * MAXP || 2 * o.price ≥ mid2)

/-- The documented activity corners on the implementation's observation (noise agents): an action
with probability 0 never happens, one with probability ≥ 1 happens once per trader. -/
def c16Corners (c : FAgents.NoiseP) (prevB nextB : Obs) : List String :=
  let newOs := nextB.orders.drop prevB.orders.length
  let nLimit (tr : Nat) := (newOs.filter fun o => o.trader == tr && !isMarketOrder o).length
  let nMarket (tr : Nat) := (newOs.filter fun o => o.trader == tr && isMarketOrder o).length
  let p0 (p : F) := !F64.lt (.fin 0) p
  let p1 (p : F) := FAgents.ge p (.fin 1)
  Audit.chk "probability_0_happened" ((!p0 c.pLimit || c.traders.all fun t => nLimit t == 0) &&
                                      (!p0 c.pMarket || c.traders.all fun t => nMarket t == 0)) ++
  Audit.chk "probability_1_skipped" ((!p1 c.pLimit || c.traders.all fun t => nLimit t == 1) &&
                                     (!p1 c.pMarket || c.traders.all fun t => nMarket t == 1)) ++
  Audit.chk "more_than_once_per_trader" (c.traders.all fun t => nLimit t ≤ 1 && nMarket t ≤ 1)

/-- C17 on the implementation's observation: the direction of every order placed in this update is
the sign of the momentum signal `m`; the trade probability depends on `|M|` only through `pm`, `pl`:
probability 0 ⇒ nothing, probability ≥ 1 ⇒ once per trader. -/
def c17Update (c : FAgents.MomP) (m pm pl : F) (prevB nextB : Obs) : List String :=
  let newOs := nextB.orders.drop prevB.orders.length
  let pos := F64.lt (.fin 0) m
  let neg := F64.lt m (.fin 0)
  let nLimit (tr : Nat) := (newOs.filter fun o => o.trader == tr && !isMarketOrder o).length
  let nMarket (tr : Nat) := (newOs.filter fun o => o.trader == tr && isMarketOrder o).length
  let p0 (p : F) := !F64.lt (.fin 0) p
  let p1 (p : F) := FAgents.ge p (.fin 1)
  Audit.chk "trades_with_zero_momentum" (pos || neg || newOs.isEmpty) ++
  Audit.chk "sell_with_positive_momentum" (!pos || newOs.all fun o => o.side == .bid) ++
  Audit.chk "buy_with_negative_momentum" (!neg || newOs.all fun o => o.side == .ask) ++
  Audit.chk "probability_0_happened" ((!p0 pl || c.traders.all fun t => nLimit t == 0) &&
                                      (!p0 pm || c.traders.all fun t => nMarket t == 0)) ++
  Audit.chk "probability_1_skipped" (!(pos || neg) ||
      ((!p1 pl || c.traders.all fun t => nLimit t == 1) && (!p1 pm || c.traders.all fun t => nMarket t == 1))) ++
  Audit.chk "more_than_once_per_trader" (c.traders.all fun t => nLimit t ≤ 1 && nMarket t ≤ 1)

/-- After a step: every limit order that became Cancelled belonged to the agent and was Active
before the step (the harness's own trader never cancels). -/
def c16Cancels (cfg : FCfg) (a : Nat) (prevB nextB : Obs) : List String :=
  if a != cfg.asset then [] else
  Audit.chk "cancelled_order_not_own_active" ((prevB.orders.zip nextB.orders).all fun (p, n) =>
    !(n.status == .cancelled && p.status != .cancelled && !isMarketOrder n) ||
      (cfg.traders.contains n.trader && p.status == .active))

structure AgentOut where
  st    : FAgentSt
  env   : MEnv
  rng   : Xoro
  lines : List String
  tags  : List String
  kDead : Bool

/-- One `update` / `xstep` operation of an `agentx` history. `toks` are the operation's tokens. -/
def handleAgentOp (hid : String) (opIdx : Nat) (ticks : List Nat) (nLevels : Nat) (st : FAgentSt) (e : MEnv) (g : Xoro)
    (kDead : Bool) (prevB : List Obs) (prevE : List EnvObs) (toks : List String) (ln : EnvLine) : AgentOut :=
  let trFlag := match prevB.head? with | some o => if o.trading then "1" else "0" | none => "1"
  let opName := toks.headD "?"
  let tail := s!"tr={trFlag} op={opName}"
  let compare (e' : MEnv) (g' : Xoro) (rngKey : Nat) : List String :=
    let mo := e'.market.books.map (·.observe nLevels)
    ((mo.zip ln.books).flatMap fun (m, i) => diffObs m i) ++
    (if mo.length != ln.books.length then ["n_assets"] else []) ++
    (((List.range ticks.length).map (modelEnvObs e')).zip ln.envs).flatMap (fun (m, i) => diffEnvObs m i) ++
    hiddenDiffs e'.market.books ln.hidden ++
    (if g'.next.1.toNat != rngKey then ["agent_rng"] else [])
  match toks with
  | ["update", "PANIC"] =>
    -- the real agent aborted: a C16 violation on its own; the model must abort too
    let modelAborts : Bool := match st.cfg with
      | .noise c => (FAgents.noiseUpdate c (fun g => (.nan, g)) st.orders e g).isNone
      | .mom c => (FAgents.momUpdate c (fun g => (.nan, g)) (fun _ => .nan) st.mom e g).isNone
    { st := st, env := e, rng := g, kDead := true, tags := ["ax:update_panic"],
      lines := [s!"A C16 {hid} {opIdx} agent_aborted {tail}"] ++
               (if kDead || modelAborts then [] else [s!"K {hid} {opIdx} fault:impl=PANIC,model=ok {tail}"]) }
  | ["update", rngTok, thTok, smpTok] =>
    match (val rngTok).toNat?, parseTh (val thTok), parseSmp (val smpTok) with
    | some rngKey, some th, some smp =>
      let sampler := tableSampler smp
      let a := st.cfg.asset
      -- audits on the implementation's observations
      let aud16 : List String := (List.range ln.books.length).flatMap fun b =>
        match prevB[b]?, ln.books[b]? with
        | some pb, some nb => c16Update st.cfg b pb nb
        | _, _ => ["missing_asset_observation"]
      let envSame := if prevE == ln.envs then [] else ["records_or_cache_changed_between_steps"]
      match st.cfg with
      | .noise c =>
        let corners := match prevB[a]?, ln.books[a]? with
          | some pb, some nb => c16Corners c pb nb
          | _, _ => []
        let audLines := (if (aud16 ++ corners).isEmpty then [] else [s!"A C16 {hid} {opIdx} {",".intercalate (aud16 ++ corners).eraseDups} {tail}"]) ++
                        (if envSame.isEmpty then [] else [s!"A C10 {hid} {opIdx} {",".intercalate envSame} {tail}"])
        match FAgents.noiseUpdate c sampler st.orders e g with
        | none =>
          { st := st, env := e, rng := g, kDead := true, tags := ["ax:update"],
            lines := audLines ++ (if kDead then [] else [s!"K {hid} {opIdx} fault:impl=ok,model=FAULT {tail}"]) }
        | some (orders', e', g') =>
          let fields := compare e' g' rngKey
          let nNew := ((ln.books[a]?.map (·.orders.length)).getD 0) - ((prevB[a]?.map (·.orders.length)).getD 0)
          { st := { st with orders := orders' }, env := e', rng := g', kDead := kDead || !fields.isEmpty,
            tags := ["ax:update", "ax:noise"] ++ (if nNew > 0 then ["ax:update_with_orders"] else []) ++
                    (if smp.any (fun s => s.n > 1) then ["ax:multi_draw_sample_seen"] else []),
            lines := audLines ++ (if kDead || fields.isEmpty then [] else [s!"K {hid} {opIdx} {",".intercalate fields.eraseDups} {tail}"]) }
      | .mom c =>
        let thf := tableTanh th
        match FAgents.midOf e a with
        | none => { st := st, env := e, rng := g, kDead := true, tags := [], lines := [s!"BAD agent asset {hid}"] }
        | some mid =>
          let (m, pm, pl) := FAgents.signal c thf st.mom mid
          -- the harness's tanh argument must be the model's
          let thArgBad : Bool := match st.mom.last, th with
            | some p, some (xb, _) => F64.ofBits xb != F64.mul c.scale (FAgents.nextM c st.mom.m p mid)
            | some _, none => true
            | none, _ => false
          -- the signal is updated from successive MID-prices: what the book reports as its mid-price (the value the
          -- agent reads) must be the midpoint of its touch prices, crossed or not (needs no model)
          let audMid := match prevB[a]? with
            | some pb => Audit.chk "observed_mid_is_not_the_touch_midpoint" (pb.mid2 == some (pb.bidAsk.1 + pb.bidAsk.2))
            | none => []
          let aud17 := audMid ++ match prevB[a]?, ln.books[a]? with
            | some pb, some nb => if kDead || thArgBad then [] else c17Update c m pm pl pb nb
            | _, _ => []
          let audLines := (if aud16.isEmpty then [] else [s!"A C16 {hid} {opIdx} {",".intercalate aud16.eraseDups} {tail}"]) ++
                          (if aud17.isEmpty then [] else [s!"A C17 {hid} {opIdx} {",".intercalate aud17} {tail}"]) ++
                          (if envSame.isEmpty then [] else [s!"A C10 {hid} {opIdx} {",".intercalate envSame} {tail}"])
          match FAgents.momUpdate c sampler thf st.mom e g with
          | none =>
            { st := st, env := e, rng := g, kDead := true, tags := ["ax:update"],
              lines := audLines ++ (if kDead then [] else [s!"K {hid} {opIdx} fault:impl=ok,model=FAULT {tail}"]) }
          | some (ms', e', g') =>
            let fields := compare e' g' rngKey ++ (if thArgBad then ["tanh_argument"] else [])
            let nNew := ((ln.books[a]?.map (·.orders.length)).getD 0) - ((prevB[a]?.map (·.orders.length)).getD 0)
            let sgnTag := if F64.lt (.fin 0) m then "ax:m_pos" else if F64.lt m (.fin 0) then "ax:m_neg" else "ax:m_zero"
            { st := { st with mom := ms' }, env := e', rng := g', kDead := kDead || !fields.isEmpty,
              tags := ["ax:update", "ax:momentum", sgnTag] ++ (if nNew > 0 then ["ax:update_with_orders"] else []),
              lines := audLines ++ (if kDead || fields.isEmpty then [] else [s!"K {hid} {opIdx} {",".intercalate fields.eraseDups} {tail}"]) }
    | _, _, _ => { st := st, env := e, rng := g, kDead := true, tags := [], lines := [s!"BAD update {hid}"] }
  | ["xstep", rngTok] =>
    match (val rngTok).toNat? with
    | none => { st := st, env := e, rng := g, kDead := true, tags := [], lines := [s!"BAD xstep {hid}"] }
    | some rngKey =>
      let (e', g') := e.step g
      let audC : List String := (List.range ln.books.length).flatMap fun b =>
        match prevB[b]?, ln.books[b]? with
        | some pb, some nb => c16Cancels st.cfg b pb nb
        | _, _ => []
      let audLines := if audC.isEmpty then [] else [s!"A C16 {hid} {opIdx} {",".intercalate audC.eraseDups} {tail}"]
      if ln.res == .panic then
        { st := st, env := e', rng := g', kDead := true, tags := ["ax:step"],
          lines := if kDead || e'.faulted then [] else [s!"K {hid} {opIdx} fault:impl=PANIC,model=ok {tail}"] }
      else if e'.faulted then
        { st := st, env := e', rng := g', kDead := true, tags := ["ax:step"],
          lines := audLines ++ (if kDead then [] else [s!"K {hid} {opIdx} fault:impl=ok,model=FAULT {tail}"]) }
      else
        let fields := compare e' g' rngKey
        let traded := (ln.books.zip prevB).any fun (n, p) => n.trades.length > p.trades.length
        { st := st, env := e', rng := g', kDead := kDead || !fields.isEmpty,
          tags := ["ax:step"] ++ (if traded then ["ax:step_with_trades"] else []) ++
                  (if e.queue.any (fun (_, ev) => match ev with | .cancel _ => true | _ => false) then ["ax:step_with_agent_cancels"] else []),
          lines := audLines ++ (if kDead || fields.isEmpty then [] else [s!"K {hid} {opIdx} {",".intercalate fields.eraseDups} {tail}"]) }
  | _ => { st := st, env := e, rng := g, kDead := true, tags := [], lines := [s!"BAD agent op {hid} {toks}"] }

end Bourse.Driver
