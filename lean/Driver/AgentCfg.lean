/-
Configuration and state of a float-exact agent attached to an `agentx` history.
-/
import Bourse.Model.FloatAgents
import Driver.Parse

open Bourse Bourse.Driver

namespace Bourse.Driver

inductive FCfg where
  | noise (c : FAgents.NoiseP)
  | mom (c : FAgents.MomP)
  deriving Repr, Inhabited

structure FAgentSt where
  cfg    : FCfg
  orders : List Nat                   -- noise agents
  mom    : FAgents.MomState
  deriving Repr, Inhabited

def FCfg.asset : FCfg → Nat | .noise c => c.asset | .mom c => c.asset
def FCfg.tick : FCfg → Nat | .noise c => c.tick | .mom c => c.tick
def FCfg.vol : FCfg → Nat | .noise c => c.vol | .mom c => c.vol
def FCfg.traders : FCfg → List Nat | .noise c => c.traders | .mom c => c.traders

/-- `agent=N@a:start:n:tick:pl:pm:pc:vol:mu:sigma bits=pl,pm,pc` (f32 bit patterns) or
`agent=M@a:start:n:tick:pc:vol:decay:demand:scale:ratio:mu:sigma bits=pc,decay,demand,scale,ratio`. -/
def parseFAgent (agentTok bitsTok : String) : Option FAgentSt := do
  let spec := val agentTok
  let bits ← ((val bitsTok).splitOn ",").mapM String.toNat?
  let fields := spec.splitOn ":"
  let hd ← fields.head?
  let (kind, asset) ← match hd.splitOn "@" with
    | [k, a] => a.toNat?.map fun a => (k, a)
    | _ => none
  match kind, fields.tail, bits with
  | "N", [start, n, tick, _, _, _, vol, _, _], [pl, pm, pc] =>
    let start ← start.toNat?; let n ← n.toNat?
    pure { cfg := .noise { asset := asset, tick := ← tick.toNat?, vol := ← vol.toNat?,
                           traders := (List.range n).map (· + start),
                           pLimit := F64.ofBits32 pl, pMarket := F64.ofBits32 pm, pCancel := F64.ofBits32 pc },
           orders := [], mom := FAgents.MomState.init }
  | "M", [start, n, tick, _, vol, _, _, _, _, _, _], [pc, decay, demand, scale, ratio] =>
    let start ← start.toNat?; let n ← n.toNat?
    pure { cfg := .mom { asset := asset, tick := ← tick.toNat?, vol := ← vol.toNat?,
                         traders := (List.range n).map (· + start), pCancel := F64.ofBits32 pc,
                         decay := F64.ofBits decay, demand := F64.ofBits demand, scale := F64.ofBits scale,
                         ratio := F64.ofBits ratio, n := n },
           orders := [], mom := FAgents.MomState.init }
  | _, _, _ => none

end Bourse.Driver
