/-
Driver part for market- and environment-level histories (`market`, `env`, `menv` headers).

For every operation the Lean model (`Market`, `MEnv` with the exact generator model `Xoro`) is
stepped and its complete observation compared with the implementation's (`K` lines); audit
predicates that need no model are evaluated on the implementation's observations (`A` lines).
-/
import Bourse.Model.Env
import Bourse.Model.Agents
import Bourse.Spec.Audit
import Driver.Parse
import Driver.AgentCfg

open Bourse Bourse.Driver

namespace Bourse.Driver

/-- The environment part of one asset's observation. -/
structure EnvObs where
  cached : Level2
  bp : List Nat
  ap : List Nat
  bv : List Nat
  av : List Nat
  bva : List (List Nat)
  boa : List (List Nat)
  ava : List (List Nat)
  aoa : List (List Nat)
  tvs : List Nat
  gettersOk : Bool
  deriving DecidableEq, Repr, Inhabited

def parseSeries (s : String) : Option (List Nat) :=
  if s == "-" then some [] else (s.splitOn ",").mapM String.toNat?

def parseSeries2 (s : String) : Option (List (List Nat)) := (s.splitOn ":").mapM parseSeries

def parseEnvObs : List String → Option EnvObs
  | ["E", c2, bp, ap, bv, av, bva, boa, ava, aoa, tvs, g] => do
      pure { cached := ← parseL2 (val c2), bp := ← parseSeries (val bp), ap := ← parseSeries (val ap),
             bv := ← parseSeries (val bv), av := ← parseSeries (val av),
             bva := ← parseSeries2 (val bva), boa := ← parseSeries2 (val boa),
             ava := ← parseSeries2 (val ava), aoa := ← parseSeries2 (val aoa),
             tvs := ← parseSeries (val tvs), gettersOk := val g == "1" }
  | _ => none

def parseBookSeg (toks : List String) : Option Obs :=
  (parseObs (("r=u") :: toks ++ ["sh=ok"])).map (·.2.1)

/-- Split a token list on the `|` separator. -/
def splitBar (toks : List String) : List (List String) :=
  let r := toks.foldl (fun (acc : List (List String) × List String) t =>
    if t == "|" then (acc.1 ++ [acc.2], []) else (acc.1, acc.2 ++ [t])) ([], [])
  r.1 ++ [r.2]

structure EnvLine where
  res : Res
  sh : String
  perm : Option (List Nat)
  rngck : Bool
  q : String
  books : List Obs
  envs : List EnvObs
  /-- per asset: the `hs=` token of the book segment, if the implementation reported one -/
  hidden : List (Option String) := []

def parseEnvLine (isEnv : Bool) (toks : List String) : Option EnvLine :=
  match splitBar toks with
  | hd :: segs =>
    if isEnv then
      match hd with
      | [r, sh, perm, rngck, _n] => do
        let res ← parseRes (val r)
        let p : Option (List Nat) ← if val perm == "-" then some none else (parseSeries (val perm)).map some
        let rec go : List (List String) → Option (List Obs × List EnvObs)
          | b :: e :: rest => do
            let ob ← parseBookSeg b
            let eo ← parseEnvObs e
            let (bs, es) ← go rest
            pure (ob :: bs, eo :: es)
          | [] => some ([], [])
          | _ => none
        let (bs, es) ← go segs
        let hs := ((List.range segs.length).filter (· % 2 == 0)).map fun i => hiddenOf (segs[i]?.getD [])
        pure { res := res, sh := val sh, perm := p, rngck := val rngck == "1", q := "ok", books := bs, envs := es, hidden := hs }
      | _ => none
    else
      match hd with
      | [r, sh, q, _n] => do
        let res ← parseRes (val r)
        let bs ← segs.mapM parseBookSeg
        pure { res := res, sh := val sh, perm := none, rngck := true, q := val q, books := bs, envs := [], hidden := segs.map hiddenOf }
      | _ => none
  | [] => none

def parseEOp : List String → Option MEnv.EOp
  | ["submit", a, sd, vol, tr, p] => do
      pure (.submit (← a.toNat?) (← parseSide sd) (← vol.toNat?) (← tr.toNat?) (← optNat p))
  | ["qcancel", a, i] => do pure (.qcancel (← a.toNat?) (← i.toNat?))
  | ["qmodify", a, i, p, v] => do pure (.qmodify (← a.toNat?) (← i.toNat?) (← optNat p) (← optNat v))
  | ["step"] => some .step
  | ["trading", b] => (parseBool b).map .trading
  | _ => none

def parseMOp : List String → Option Market.MOp
  | "on" :: a :: rest => do pure (.on (← a.toNat?) (← parseOp rest))
  | ["time", t] => t.toNat?.map .time
  | ["trading", b] => (parseBool b).map .trading
  | ["resetvol"] => some .resetVol
  | ["reload", _] => some .reload
  | _ => none

/-- Model-side environment observation of asset `a`. -/
def modelEnvObs (e : MEnv) (a : Nat) : EnvObs :=
  let r := e.records[a]?.getD (Records.new e.nLevels)
  { cached := e.l2[a]?.getD default, bp := r.bidPrices, ap := r.askPrices, bv := r.bidVols, av := r.askVols,
    bva := r.bidVolAt, boa := r.bidOrdAt, ava := r.askVolAt, aoa := r.askOrdAt,
    tvs := e.tradeVols[a]?.getD [], gettersOk := true }

def diffEnvObs (m i : EnvObs) : List String :=
  (if m.cached != i.cached then ["cached_l2"] else []) ++
  (if m.bp != i.bp || m.ap != i.ap then ["rec.prices"] else []) ++
  (if m.bv != i.bv || m.av != i.av then ["rec.volumes"] else []) ++
  (if m.bva != i.bva || m.ava != i.ava then ["rec.level_volumes"] else []) ++
  (if m.boa != i.boa || m.aoa != i.aoa then ["rec.level_orders"] else []) ++
  (if m.tvs != i.tvs then ["rec.trade_vols"] else [])

/-! ### Audits on the implementation's observations alone -/

def lastEq (s : List Nat) (v : Nat) : Bool := s.getLast? == some v

/-- C11: after a step every series has `k` entries, the old entries are unchanged and the new
entry of each series is the live book's value at the end of the step. -/
def c11Records (k : Nat) (tsValid : Bool) (prevE nextE : EnvObs) (prevB live : Obs) : List String :=
  let lenOk (s : List Nat) := s.length == k
  let grows (p n : List Nat) := n.take p.length == p && n.length == p.length + 1
  let lvl (ss : List (List Nat)) (f : Nat × Nat → Nat) (levels : List (Nat × Nat)) :=
    ss.length == levels.length &&
    (ss.zip levels).all fun (s, l) => lastEq s (f l) && s.length == k
  let grows2 (p n : List (List Nat)) := p.length == n.length && (p.zip n).all fun (a, b) => grows a b
  let newVol := ((live.trades.drop prevB.trades.length).map (·.vol)).sum
  Audit.chk "series_length" (lenOk nextE.bp && lenOk nextE.ap && lenOk nextE.bv && lenOk nextE.av && lenOk nextE.tvs) ++
  Audit.chk "series_append_only" (grows prevE.bp nextE.bp && grows prevE.ap nextE.ap && grows prevE.bv nextE.bv
    && grows prevE.av nextE.av && grows prevE.tvs nextE.tvs && grows2 prevE.bva nextE.bva
    && grows2 prevE.boa nextE.boa && grows2 prevE.ava nextE.ava && grows2 prevE.aoa nextE.aoa) ++
  Audit.chk "touch_prices_entry" (lastEq nextE.bp live.bidAsk.1 && lastEq nextE.ap live.bidAsk.2) ++
  Audit.chk "side_volumes_entry" (lastEq nextE.bv live.vols.1 && lastEq nextE.av live.vols.2) ++
  Audit.chk "bid_level_entries" (lvl nextE.bva (·.1) live.bidLevels && lvl nextE.boa (·.2) live.bidLevels) ++
  Audit.chk "ask_level_entries" (lvl nextE.ava (·.1) live.askLevels && lvl nextE.aoa (·.2) live.askLevels) ++
  Audit.chk "trade_vol_entry" (lastEq nextE.tvs newVol) ++
  Audit.chk "trade_vol_by_timestamp"
    -- trades time-stamped within the step (start ≤ t < end) — all of this step's trades when the
    -- batch fits into the step
    (let inStep := (live.trades.filter fun tr => prevB.t ≤ tr.t && tr.t < live.t).map (·.vol)
     let late := (live.trades.drop prevB.trades.length).any fun tr => tr.t ≥ live.t
     !tsValid || late || lastEq nextE.tvs inStep.sum) ++
  Audit.chk "getters_agree" nextE.gettersOk

/-- C10: a submission between steps changes nothing observable except a new order with status New. -/
def c10Invisible (op : MEnv.EOp) (res : Res) (a : Nat) (prevB nextB : Obs) (prevE nextE : EnvObs) : List String :=
  let envSame := Audit.chk "records_and_cache_unchanged" (nextE == prevE)
  match op with
  | .submit a' sd vol tr p =>
    if a' == a then
      match res with
      | .ok id =>
        let exp : Order := Book.mkOrder prevB.t sd vol tr p id
        Audit.chk "only_new_order_appears" (nextB == { prevB with orders := prevB.orders ++ [exp] }
          && id == prevB.orders.length) ++ envSame
      | _ => Audit.chk "rejected_submission_no_trace" (nextB == prevB) ++ envSame
    else Audit.chk "other_asset_unchanged" (nextB == prevB) ++ envSame
  | .qcancel _ _ => Audit.chk "queued_cancel_invisible" (nextB == prevB) ++ envSame
  | .qmodify _ _ _ _ => Audit.chk "queued_modify_invisible" (nextB == prevB) ++ envSame
  | .trading on => Audit.chk "toggle_only_flag" (nextB == { prevB with trading := on }) ++ envSame
  | .step => Audit.chk "cache_is_live_level2" (nextE.cached == nextB.l2)

/-- C08 (model-free parts): clock, counter. -/
def c08Step (stepSize : Nat) (prevB nextB : Obs) : List String :=
  let newT := nextB.trades.drop prevB.trades.length
  Audit.chk "clock_advanced_by_step_size" (nextB.t == prevB.t + stepSize) ++
  Audit.chk "step_trade_vol_counts_this_step" (nextB.tradeVol == (newT.map (·.vol)).sum) ++
  Audit.chk "old_trades_unchanged" (nextB.trades.take prevB.trades.length == prevB.trades) ++
  Audit.chk "no_trades_while_disabled" (prevB.trading || newT.isEmpty)

structure EHist where
  id      : String
  profile : String
  kind    : String       -- env | menv | market
  ticks   : List Nat
  nLevels : Nat
  stepSize : Nat
  env     : MEnv
  market  : Market
  rng     : Xoro
  prevB   : List Obs
  prevE   : List EnvObs
  prevH   : List (Option String) := []
  opIdx   : Nat
  nSteps  : Nat
  kDead   : Bool
  pendingE : Option (MEnv.EOp × String)
  pendingM : Option (Market.MOp × String)
  started : Bool
  neverDisabled : Bool
  everOverfull : Bool := false
  simAgents : List RandomAgents := []
  simSteps : Nat := 0
  simSeed : Nat := 0
  fagent : Option FAgentSt := none
  pendingX : Option (List String) := none

def parseTicks (s : String) : Option (List Nat) := (s.splitOn ",").mapM String.toNat?

def parseFrac (s : String) : Option (Nat × Nat) :=
  match s.splitOn "/" with
  | [a, b] => do pure (← a.toNat?, ← b.toNat?)
  | [a] => do pure (← a.toNat?, 1)
  | _ => none

/-- `R:<n>:<lo>:<hi>:<vlo>:<vhi>:<tick>:<num>/<den>` or `R@<asset>:…`. -/
def parseRandomAgent (s : String) : Option RandomAgents :=
  match s.splitOn ":" with
  | [hd, n, lo, hi, vlo, vhi, tick, rate] => do
      let asset ← match hd.splitOn "@" with
        | ["R"] => some 0
        | ["R", a] => a.toNat?
        | _ => none
      let (num, den) ← parseFrac rate
      pure { asset := asset, orders := List.replicate (← n.toNat?) none, tickLo := ← lo.toNat?, tickHi := ← hi.toNat?,
             volLo := ← vlo.toNat?, volHi := ← vhi.toNat?, tickSize := ← tick.toNat?, rateNum := num, rateDen := den }
  | _ => none

def newEHist (toks : List String) : Option EHist :=
  match toks with
  | hid :: profile :: "sim" :: kind :: seed :: t0 :: ticks :: step :: trading :: steps :: agents =>
    if kind == "sim" || kind == "msim" then do
      let seed ← seed.toNat?; let t0 ← t0.toNat?; let ticks ← parseTicks ticks; let step ← step.toNat?
      let trading ← parseBool trading; let steps ← steps.toNat?
      let ags ← agents.mapM parseRandomAgent
      pure { id := hid, profile := profile, kind := "sim", ticks := ticks, nLevels := 10, stepSize := step,
             env := MEnv.new t0 ticks step trading 10, market := Market.new t0 ticks trading,
             rng := Xoro.seed (UInt64.ofNat seed), prevB := [], prevE := [], opIdx := 0, nSteps := 0,
             kDead := false, pendingE := none, pendingM := none, started := false, neverDisabled := trading,
             simAgents := ags, simSteps := steps, simSeed := seed }
    else none
  | [hid, profile, kind, seed, t0, ticks, step, trading, l, agentTok, bitsTok] =>
    if kind == "env" || kind == "menv" then do
      let seed ← seed.toNat?; let t0 ← t0.toNat?; let ticks ← parseTicks ticks; let step ← step.toNat?
      let trading ← parseBool trading; let l ← l.toNat?
      let ag ← parseFAgent agentTok bitsTok
      pure { id := hid, profile := profile, kind := kind, ticks := ticks, nLevels := l, stepSize := step,
             env := MEnv.new t0 ticks step trading l, market := Market.new t0 ticks trading,
             rng := Xoro.seed (UInt64.ofNat seed), prevB := [], prevE := [], opIdx := 0, nSteps := 0,
             kDead := false, pendingE := none, pendingM := none, started := false, neverDisabled := trading,
             fagent := some ag }
    else none
  | [hid, profile, kind, seed, t0, ticks, step, trading, l] =>
    if kind == "env" || kind == "menv" then do
      let seed ← seed.toNat?; let t0 ← t0.toNat?; let ticks ← parseTicks ticks; let step ← step.toNat?
      let trading ← parseBool trading; let l ← l.toNat?
      pure { id := hid, profile := profile, kind := kind, ticks := ticks, nLevels := l, stepSize := step,
             env := MEnv.new t0 ticks step trading l, market := Market.new t0 ticks trading,
             rng := Xoro.seed (UInt64.ofNat seed), prevB := [], prevE := [], opIdx := 0, nSteps := 0,
             kDead := false, pendingE := none, pendingM := none, started := false, neverDisabled := trading }
    else none
  | [hid, profile, "market", t0, ticks, trading, l] => do
      let t0 ← t0.toNat?; let ticks ← parseTicks ticks; let trading ← parseBool trading; let l ← l.toNat?
      pure { id := hid, profile := profile, kind := "market", ticks := ticks, nLevels := l, stepSize := 0,
             env := MEnv.new t0 ticks 0 trading l, market := Market.new t0 ticks trading,
             rng := Xoro.seed 0, prevB := [], prevE := [], opIdx := 0, nSteps := 0,
             kDead := false, pendingE := none, pendingM := none, started := false, neverDisabled := trading }
  | _ => none

/-- Result of handling one observation line: the new history state and the report lines. -/
def handleEnvObs (h : EHist) (toks : List String) : EHist × List String × List String :=
  let isEnv := h.kind != "market"
  if h.kind == "sim" then
    if !h.started then ({ h with started := true }, [], [])
    else
      match parseEnvLine true toks with
      | none =>
        -- the real run panicked (or printed something unparsable)
        match simRunner h.env h.simAgents h.simSeed h.simSteps with
        | none => (h, [], ["sim:both_abort"])
        | some _ => (h, [s!"K {h.id} 0 fault:impl=PANIC,model=ok tr=1 op=run"], ["sim:panic"])
      | some ln =>
        match simRunner h.env h.simAgents h.simSeed h.simSteps with
        | none => (h, [s!"K {h.id} 0 fault:impl=ok,model=FAULT tr=1 op=run"], ["sim:model_abort"])
        | some (_, e', _) =>
          let mo := e'.market.books.map (·.observe h.nLevels)
          let fields : List String :=
            ((mo.zip ln.books).flatMap fun (m, i) => diffObs m i) ++
            (if mo.length != ln.books.length then ["n_assets"] else []) ++
            (((List.range h.ticks.length).map (modelEnvObs e')).zip ln.envs).flatMap (fun (m, i) => diffEnvObs m i) ++
            hiddenDiffs e'.market.books ln.hidden
          let nOrders := (ln.books.map (·.orders.length)).sum
          let nTrades := (ln.books.map (·.trades.length)).sum
          let tags := ["sim:run"] ++ (if nOrders > 0 then ["sim:with_orders"] else []) ++
                      (if nTrades > 0 then ["sim:with_trades"] else [])
          ({ h with nSteps := h.simSteps },
           if fields.isEmpty then [] else [s!"K {h.id} 0 {",".intercalate fields.eraseDups} tr=1 op=run"], tags)
  else
  match parseEnvLine isEnv toks with
  | none => (h, [s!"BAD envobs {h.id} {h.opIdx}"], [])
  | some ln =>
    if !h.started then
      -- initial observation
      let mb := if isEnv then h.env.market.books else h.market.books
      let mo := mb.map (·.observe h.nLevels)
      let bad := mo != ln.books || (isEnv && (List.range h.ticks.length).map (modelEnvObs h.env) != ln.envs)
                  || !(hiddenDiffs mb ln.hidden).isEmpty
      ({ h with started := true, prevB := ln.books, prevE := ln.envs, prevH := ln.hidden, kDead := bad },
       if bad then [s!"K {h.id} init init tr=1 op=init"] else [], [])
    else
      let trFlag := match h.prevB.head? with | some o => if o.trading then "1" else "0" | none => "1"
      if isEnv then
        match h.pendingE with
        | none => (h, [s!"BAD envobs-without-op {h.id}"], [])
        | some (op, opLine) =>
          let tail := s!"tr={trFlag} op={opLine}"
          -- model
          let qlen := h.env.queue.length
          let predicted : Option (List Nat) :=
            match op with
            | .step => (Xoro.shuffle (List.range qlen) h.rng).map (·.1)
            | _ => none
          let ((e', g'), mres) := h.env.apply h.rng op
          Id.run do
          let mut out : List String := []
          let mut kDead := h.kDead
          if !kDead then
            if ln.res == .panic then
              if !e'.faulted then out := out ++ [s!"K {h.id} {h.opIdx} fault:impl=PANIC,model=ok {tail}"]
              kDead := true
            else if e'.faulted then
              out := out ++ [s!"K {h.id} {h.opIdx} fault:impl=ok,model=FAULT {tail}"]; kDead := true
            else
              let mo := e'.market.books.map (·.observe h.nLevels)
              let fields : List String :=
                ((mo.zip ln.books).flatMap fun (m, i) => diffObs m i) ++
                (if mo.length != ln.books.length then ["n_assets"] else []) ++
                (((List.range h.ticks.length).map (modelEnvObs e')).zip ln.envs).flatMap (fun (m, i) => diffEnvObs m i) ++
                (if mres != ln.res then ["result"] else []) ++
                hiddenDiffs e'.market.books ln.hidden ++
                (match op with
                 | .step => if predicted.getD [] != ln.perm.getD [] then ["schedule"] else []
                 | _ => [])
              if !fields.isEmpty then
                out := out ++ [s!"K {h.id} {h.opIdx} {",".intercalate fields.eraseDups} {tail}"]; kDead := true
                -- The reference engine's observation after a step is the model's: every asset of every simulation is the
                -- reference engine run on its share of the operations (`simulation_asset_is_reference_engine`, proved for
                -- valid fault-free histories; the profiles below generate only valid operations). So a book observation
                -- that differs from the model's after a step differs from the reference engine's: an `R` finding with
                -- this history as the failing input.
                let bookFields := (((mo.zip ln.books).flatMap fun (m, i) => diffObs m i)).eraseDups
                let validProfile := ["plain", "toggle", "overfull"].contains h.profile
                match op with
                | .step =>
                  if validProfile && !bookFields.isEmpty then
                    out := out ++ [s!"R {h.id} {h.opIdx} {",".intercalate bookFields} {tail}"]
                | _ => pure ()
          -- audits
          let mut aud : List String := []
          if ln.res != .panic then
            if ln.sh != "ok" then aud := aud ++ [s!"A SH {h.id} {h.opIdx} shadow_{ln.sh} {tail}"]
            if !ln.rngck then aud := aud ++ [s!"A RNG {h.id} {h.opIdx} generator_not_advanced_by_exactly_one_shuffle {tail}"]
            let nSteps := match op with | .step => h.nSteps + 1 | _ => h.nSteps
            -- the observed processing order must be the shuffle's permutation: a placement queued at index k
            -- and processed at position pos (perm[pos] = k) arrives at exactly start + pos
            match op, ln.perm with
            | .step, some perm =>
              let startT := (h.prevB.head?.map (·.t)).getD 0
              let bad := (h.env.queue.zipIdx).any fun ((a, ev), k) =>
                match ev with
                | .new id =>
                  match (h.prevB[a]?).bind (·.orders[id]?), (ln.books[a]?).bind (·.orders[id]?), perm.idxOf? k with
                  | some po, some no, some pos =>
                    -- the first placement instruction for a New order places it
                    po.status == .new && no.status != .new && no.arr != startT + pos &&
                      !((h.env.queue.take k).any fun (a', ev') => a' == a && ev' == Event.new id)
                  | _, _, _ => false
                | _ => false
              if bad then aud := aud ++ [s!"A ORD {h.id} {h.opIdx} arrival_time_is_not_start_plus_shuffle_position {tail}"]
            | _, _ => pure ()
            for a in List.range ln.books.length do
              match h.prevB[a]?, ln.books[a]?, h.prevE[a]?, ln.envs[a]? with
              | some pb, some nb, some pe, some ne =>
                let f10 := c10Invisible op ln.res a pb nb pe ne ++
                  (match op with
                   | .step => []
                   | .submit a' .. =>
                     Audit.chk "snapshot_state_unchanged" (hiddenUntouched ((h.prevH[a]?).join) ((ln.hidden[a]?).join) (a' == a) false)
                   | .trading _ => Audit.chk "snapshot_state_unchanged" (hiddenUntouched ((h.prevH[a]?).join) ((ln.hidden[a]?).join) false true)
                   | _ => Audit.chk "snapshot_state_unchanged" (hiddenUntouched ((h.prevH[a]?).join) ((ln.hidden[a]?).join) false false))
                if !f10.isEmpty then
                  let isRej := f10.contains "rejected_submission_no_trace"
                  aud := aud ++ [s!"A {if isRej then "C12" else "C10"} {h.id} {h.opIdx} {",".intercalate f10} {tail}"]
                match op with
                | .step =>
                  let f11 := c11Records nSteps (!h.everOverfull && qlen ≤ h.stepSize) pe ne pb nb
                  if !f11.isEmpty then aud := aud ++ [s!"A C11 {h.id} {h.opIdx} {",".intercalate f11} {tail}"]
                  let f08 := c08Step h.stepSize pb nb
                  if !f08.isEmpty then aud := aud ++ [s!"A C08 {h.id} {h.opIdx} {",".intercalate f08} {tail}"]
                  let f02 := Audit.c02Views (h.ticks[a]?.getD 1) h.nLevels nb
                  if !f02.isEmpty then aud := aud ++ [s!"A C02 {h.id} {h.opIdx} {",".intercalate f02} {tail}"]
                | .submit a' _ _ _ (some p) =>
                  if a' == a then
                    let tick := h.ticks[a]?.getD 1
                    let okr := match ln.res with | .ok _ => true | _ => false
                    if okr != (p % tick == 0) then
                      aud := aud ++ [s!"A C12 {h.id} {h.opIdx} create_ok_iff_on_grid {tail}"]
                | _ => pure ()
              | _, _, _, _ => aud := aud ++ [s!"A SH {h.id} {h.opIdx} missing_asset_observation {tail}"]
          let nSteps2 : Nat := match op with
            | .step => h.nSteps + 1
            | _ => h.nSteps
          let h2 : EHist := { h with env := e', rng := g', prevB := ln.books, prevE := ln.envs, prevH := ln.hidden,
                                     opIdx := h.opIdx + 1, nSteps := nSteps2, kDead := kDead, pendingE := none,
                                     everOverfull := h.everOverfull || (match op with | .step => qlen > h.stepSize | _ => false) }
          let opTag : String := match op with
            | .submit .. => "eop:submit" | .qcancel .. => "eop:qcancel" | .qmodify .. => "eop:qmodify"
            | .step => "eop:step" | .trading _ => "eop:trading"
          let batchTag : List String := match op with
            | .step => [if qlen == 0 then "batch:empty" else if qlen > h.stepSize then "batch:overfull" else "batch:fits"]
            | _ => []
          let trTag : List String := (ln.books.zip h.prevB).flatMap fun (n, p) =>
              if n.trades.length > p.trades.length then ["step_with_trades"] else []
          return (h2, out ++ aud, [opTag] ++ batchTag ++ trTag)
      else
        match h.pendingM with
        | none => (h, [s!"BAD marketobs-without-op {h.id}"], [])
        | some (op, opLine) =>
          let tail := s!"tr={trFlag} op={opLine}"
          let (m', mres) := h.market.step op
          Id.run do
          let mut out : List String := []
          let mut kDead := h.kDead
          if !kDead then
            if ln.res == .panic then
              if !m'.faulted then out := out ++ [s!"K {h.id} {h.opIdx} fault:impl=PANIC,model=ok {tail}"]
              kDead := true
            else if m'.faulted then
              out := out ++ [s!"K {h.id} {h.opIdx} fault:impl=ok,model=FAULT {tail}"]; kDead := true
            else
              let mo := m'.books.map (·.observe h.nLevels)
              let fields : List String :=
                ((mo.zip ln.books).flatMap fun (m, i) => diffObs m i) ++
                (if mo.length != ln.books.length then ["n_assets"] else []) ++
                (if mres != ln.res then ["result"] else []) ++
                hiddenDiffs m'.books ln.hidden
              if !fields.isEmpty then
                out := out ++ [s!"K {h.id} {h.opIdx} {",".intercalate fields.eraseDups} {tail}"]; kDead := true
          let mut aud : List String := []
          let neverDisabled := h.neverDisabled && (match op with | .trading false => false | .on _ (.trading false) => false | _ => true)
          if ln.res != .panic then
            if ln.sh != "ok" then
              let isReload := match op with | .reload => true | _ => false
              aud := aud ++ [s!"A {if isReload then "C07" else "SH"} {h.id} {h.opIdx} shadow_{ln.sh} {tail}"]
            if ln.q != "ok" then aud := aud ++ [s!"A C14 {h.id} {h.opIdx} all_asset_query_{ln.q} {tail}"]
            for a in List.range ln.books.length do
              match h.prevB[a]?, ln.books[a]? with
              | some pb, some nb =>
                -- the book operation this asset sees
                let bop : Option Op := match op with
                  | .on a' o => if a' == a then some o else none
                  | .time t => some (.time t)
                  | .trading on => some (.trading on)
                  | .resetVol => some .resetVol
                  | .reload => some .reload
                -- a trading switch (market-wide or addressed to this book) sets THIS book's own flag (read from its snapshot state)
                match bop, (ln.hidden[a]?).join with
                | some (.trading on), some hs =>
                  if (splitC hs "/").length == 3 && (splitC hs "/")[1]? != some (if on then "1" else "0") then
                    aud := aud ++ [s!"A C13 {h.id} {h.opIdx} flag_in_snapshot_not_switched {tail}"]
                | _, _ => pure ()
                match bop with
                | none =>
                  if nb != pb then aud := aud ++ [s!"A C14 {h.id} {h.opIdx} other_asset_changed {tail}"]
                | some o =>
                  let tick := h.ticks[a]?.getD 1
                  let res := match op with | .on _ _ => ln.res | _ => Res.unit
                  let fs : List (String × List String) :=
                    [("C02", Audit.c02Views tick h.nLevels nb ++ Audit.c02Uncrossed neverDisabled nb),
                     ("C03", Audit.c03Ledger pb nb o), ("C04", Audit.c04Lifecycle pb nb ++ Audit.c04Noop pb nb o),
                     ("C06", Audit.c06Modify tick pb nb o), ("C12", Audit.c12Grid tick h.nLevels pb nb o res),
                     ("C13", Audit.c13NoTrading pb nb o)]
                  for (nm, f) in fs do
                    if !f.isEmpty && h.profile != "malformed" || (nm == "C12" && !f.isEmpty) then
                      aud := aud ++ [s!"A {nm} {h.id} {h.opIdx} {",".intercalate f} {tail}"]
              | _, _ => aud := aud ++ [s!"A SH {h.id} {h.opIdx} missing_asset_observation {tail}"]
          let h2 : EHist := { h with market := m', prevB := ln.books, opIdx := h.opIdx + 1, kDead := kDead,
                                     pendingM := none, neverDisabled := neverDisabled }
          let opTag : String := match op with
            | .on _ (.cap ..) => "mop:cap" | .on _ (.create ..) => "mop:create" | .on _ (.place _) => "mop:place"
            | .on _ (.cancel _) => "mop:cancel" | .on _ (.modify ..) => "mop:modify" | .on _ (.ev _) => "mop:ev"
            | .on _ _ => "mop:other" | .time _ => "mop:time" | .trading _ => "mop:trading"
            | .resetVol => "mop:resetvol" | .reload => "mop:reload"
          let trTag : List String := (ln.books.zip h.prevB).flatMap fun (n, p) =>
              if n.trades.length > p.trades.length then ["mop_with_trades"] else []
          return (h2, out ++ aud, [opTag] ++ trTag)

end Bourse.Driver
