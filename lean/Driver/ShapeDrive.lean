/-
Driver part for the derive-macro shapes (`S` lines, C20): predicts the probes' log with the Lean
model of the derived `update` and compares with the derived run and the hand-written run.
-/
import Bourse.Model.AgentSet
import Driver.Parse

open Bourse Bourse.Driver

namespace Bourse.Driver

/-- Parse `q0 ( p1 ) q2 p3` (tokens) into `Members`; returns the rest after a closing paren. -/
partial def parseMembers : List String → Option (Members × List String)
  | [] => some (.nil, [])
  | ")" :: rest => some (.nil, rest)
  | "(" :: rest => do
      let (inner, rest) ← parseMembers rest
      let (tail, rest) ← parseMembers rest
      pure (.cons (.set inner) tail, rest)
  | tok :: rest => do
      let c := tok.take 1
      let tag ← (tok.drop 1).toNat?
      let draws ← if c == "p" then some 1 else if c == "q" then some 2 else none
      let (tail, rest) ← parseMembers rest
      pure (.cons (.probe tag draws) tail, rest)

def showLog (s : SetSt) : String :=
  let l := if s.log.isEmpty then "-" else ",".intercalate (s.log.map fun (t, d, n) => s!"{t}:{d}:{n}")
  s!"{l}/{((s.env.market.books[0]?).map (·.orders.length)).getD 0}"

def handleShape (toks : List String) : List String × List String :=
  match toks with
  | [name, mac, _style, seed, steps, tree, derived, hand, derived2, hand2] =>
    let treeS := ((val tree).drop 1).dropEnd 1
    match parseMembers (treeS.toString.splitOn "_"), (val seed).toNat?, (val steps).toNat? with
    | some (top, []), some seed, some steps =>
      let env := if val mac == "AgentSet" then MEnv.new 0 [1] 100 true 10 else MEnv.new 0 [1, 1] 100 true 3
      let s := runShape top steps { log := [], env := env, g := Xoro.seed (UInt64.ofNat seed) }
      let model := showLog s
      let d := val derived
      let h := val hand
      let tail := s!"tr=1 op=shape_{name}_{val mac}_{val _style}_seed{seed}"
      ((if d != h then [s!"A C20 {name} 0 derived_differs_from_handwritten {tail}"] else []) ++
       -- second run: a generator whose 32-bit draws and byte filling are not derived from its 64-bit draws
       (if val derived2 != val hand2 then [s!"A C20 {name} 0 derived_differs_from_handwritten_on_another_generator {tail}"] else []) ++
       (if d == h && d != model then [s!"K {name} 0 derived_log_differs_from_model {tail}"] else []),
       ["shape:" ++ val mac, "shape_leaves:" ++ toString top.leaves.length])
    | _, _, _ => ([s!"BAD shape tree {tree}"], [])
  | _ => ([s!"BAD shape line {toks}"], [])

end Bourse.Driver
