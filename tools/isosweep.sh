#!/bin/bash
# isosweep.sh <tag> <ids...> : run tools/seedsweep.sh for the given seeded changes on private copies of
# /verif and /repo (bind-mounted over /verif and /repo in a private mount namespace), so that the real
# trees are never touched and several sweeps can run side by side. The `detection` records written
# into seeded/<id>/meta.json are copied back; the log is /tmp/iso/<tag>.log.
set -u
TAG=$1; shift
ISO=/tmp/iso/$TAG
rm -rf $ISO; mkdir -p $ISO/verif $ISO/repo
rsync -a --exclude 'evidence/replays' /verif/ $ISO/verif/
rsync -a /repo/ $ISO/repo/
unshare -m bash -c "mount --bind $ISO/verif /verif && mount --bind $ISO/repo /repo && cd /verif && git -C /repo checkout -q -- . && tools/seedsweep.sh $* " > /tmp/iso/$TAG.log 2>&1
for d in "$@"; do cp $ISO/verif/seeded/$d/meta.json /verif/seeded/$d/meta.json; done
rm -rf $ISO
echo "ISOSWEEP $TAG DONE"
