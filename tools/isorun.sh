#!/bin/bash
# isorun.sh <tag> <command...> : run a command on private copies of /verif and /repo bind-mounted over
# /verif and /repo in a private mount namespace (the real trees are never touched). Log: /tmp/iso/<tag>.log
set -u
TAG=$1; shift
ISO=/tmp/iso/$TAG
rm -rf $ISO; mkdir -p $ISO/verif $ISO/repo
rsync -a --exclude 'evidence/replays' /verif/ $ISO/verif/
rsync -a /repo/ $ISO/repo/
unshare -m bash -c "mount --bind $ISO/verif /verif && mount --bind $ISO/repo /repo && cd /verif && $*" > /tmp/iso/$TAG.log 2>&1
rc=$?
rm -rf $ISO
echo "ISORUN $TAG rc=$rc"
