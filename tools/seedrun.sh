#!/bin/bash
# seedrun.sh <patch.diff> <prop> [more props...] : apply to /repo, run the checks, undo.
# The evidence files of the unchanged tree are put back afterwards (a run on a mutated tree must
# never end up committed as evidence).
PATCH=$1; shift
BK=$(mktemp -d /verif/.build/evbk.XXXXXX)
cp /verif/evidence/*.json $BK/ 2>/dev/null
cd /repo && git apply $PATCH || { echo "cannot apply $PATCH"; rm -rf $BK; exit 2; }
cd /verif
for p in "$@"; do
  if [ "${VERIF_EXT:-0}" = 1 ]; then out=$(bin/check $p --extended 2>&1); rc=$?; else out=$(bin/check $p 2>&1); rc=$?; fi
  echo "[$p rc=$rc] $(echo "$out" | grep -E 'VIOLATION|^OK|KNOWN' | head -3 | tr '\n' ' ')"
  echo "$out" | grep '^#' | head -2
done
git -C /repo checkout -- . ; git -C /repo clean -fdq
cp $BK/*.json /verif/evidence/ 2>/dev/null; rm -rf $BK
(cd /verif && bin/translate-all >/dev/null 2>&1)
