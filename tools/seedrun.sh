#!/bin/bash
# seedrun.sh <patch.diff> <prop> [more props...] : apply to /repo, run the checks, undo.
PATCH=$1; shift
cd /repo && git apply $PATCH || { echo "cannot apply $PATCH"; exit 2; }
cd /verif
for p in "$@"; do
  out=$(bin/check $p 2>&1); rc=$?
  echo "[$p rc=$rc] $(echo "$out" | grep -E 'VIOLATION|^OK|KNOWN' | head -3 | tr '\n' ' ')"
  echo "$out" | grep '^#' | head -2
done
git -C /repo checkout -- .
