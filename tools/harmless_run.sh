#!/bin/bash
# harmless_run.sh <ids...> : apply each behaviour-preserving change of /verif/harmless/<id>/patch.diff to /repo, run EVERY
# property's quick check, record what each reports in harmless/<id>/result.json, undo. Run under tools/isorun.sh.
cd /verif
for d in "$@"; do
  cd /repo && git apply /verif/harmless/$d/patch.diff || { echo "cannot apply $d"; continue; }
  cd /verif
  echo "== $d"
  res=""
  for p in C01 C02 C03 C04 C05 C06 C07 C08 C09 C10 C11 C12 C13 C14 C15 C16 C17 C18 C19 C20; do
    out=$(bin/check $p 2>&1); rc=$?
    line="$p rc=$rc $(echo "$out" | grep -E 'VIOLATION' | head -1 | sed 's/replay=[^ ]*//') $(echo "$out" | grep '^#' | head -1)"
    echo "$line"
    res="$res$line"$'\n'
  done
  git -C /repo checkout -- . ; git -C /repo clean -fdq
  python3 - "$d" "$res" <<'PY'
import json, sys, re
d, res = sys.argv[1], sys.argv[2]
out = {"checks_run": "bin/check Cxx --tier quick for every property, on /repo with the change applied", "results": {}}
for l in res.strip().split("\n"):
    m = re.match(r"(C\d\d) rc=(\d+) (.*)", l)
    if m:
        out["results"][m.group(1)] = {"exit": int(m.group(2)), "reported": m.group(3).strip()}
out["alarms"] = [p for p, r in out["results"].items() if r["exit"] != 0]
out["alarms_with_failing_input"] = [p for p, r in out["results"].items() if r["exit"] != 0 and "no-failing-input-found" not in r["reported"]]
json.dump(out, open(f"/verif/harmless/{d}/result.json", "w"), indent=1)
PY
done
(cd /verif && bin/translate-all >/dev/null 2>&1)
echo HARMLESSDONE
