#!/bin/bash
# seedsweep.sh [ids...] : run every kept seeded change (default: all of /verif/seeded) against its
# property's quick check and record the outcome in its meta.json ("detection").
cd /verif
ids=("$@")
[ ${#ids[@]} -eq 0 ] && ids=($(ls seeded))
for d in "${ids[@]}"; do
  p=${d%%-*}
  out=$(tools/seedrun.sh /verif/seeded/$d/patch.diff $p 2>&1)
  # not caught inside the property's own quantifier: try the extended profiles (zero volumes, clock moved back, sentinel
  # prices, over-full batches for C08, off-grid submissions for C10, histories with disabled periods for C01)
  ext=""
  if ! echo "$out" | grep "VIOLATION property=$p" | grep -qv "no-failing-input-found"; then
    ext=$(VERIF_EXT=1 tools/seedrun.sh /verif/seeded/$d/patch.diff $p 2>&1)
  fi
  echo "== $d"; echo "$out"
  [ -n "$ext" ] && { echo "-- extended:"; echo "$ext"; }
  python3 - "$d" "$p" "$out" "$ext" <<'PY'
import json, sys, re
d, p, out, ext = sys.argv[1], sys.argv[2], sys.argv[3], sys.argv[4]
f = f"/verif/seeded/{d}/meta.json"
m = json.load(open(f))
viol = re.findall(r"VIOLATION property=(\S+) replay=(\S+)( no-failing-input-found)?", out)
why = [l[2:].strip() for l in out.split("\n") if l.startswith("# ")]
other = m.get("detection", {}).get("other_properties_checks")
m["detection"] = {
    "check": f"bin/check {p} --tier quick",
    "detected": bool(viol) and all(v[0] == p for v in viol),
    "with_failing_input": any(not v[2] for v in viol),
    "reported": why[:2],
    "how_run": f"tools/seedrun.sh seeded/{d}/patch.diff {p}  (git -C /repo apply; bin/check; git -C /repo checkout -- .)",
    "see": "DESIGN.md section 9",
}
if other:
    m["detection"]["other_properties_checks"] = other
if ext:
    v2 = re.findall(r"VIOLATION property=(\S+) replay=(\S+)( no-failing-input-found)?", ext)
    w2 = [l[2:].strip() for l in ext.split("\n") if l.startswith("# ")]
    m["detection"]["outside_the_quantifier"] = {
        "check": f"bin/check {p} --extended  (development mode: profiles outside the property's own quantifier)",
        "detected": bool(v2), "with_failing_input": any(not v[2] for v in v2), "reported": w2[:2],
    }
json.dump(m, open(f, "w"), indent=1)
PY
done
echo SWEEPDONE
