#!/bin/bash
# isoharmless.sh <tag> <ids...> : tools/harmless_run.sh on private copies of /verif and /repo; results copied back.
TAG=$1; shift
ISO=/tmp/iso/$TAG
rm -rf $ISO; mkdir -p $ISO/verif $ISO/repo
rsync -a --exclude 'evidence/replays' /verif/ $ISO/verif/
rsync -a /repo/ $ISO/repo/
unshare -m bash -c "mount --bind $ISO/verif /verif && mount --bind $ISO/repo /repo && cd /verif && git -C /repo checkout -q -- . && tools/harmless_run.sh $* " > /tmp/iso/$TAG.log 2>&1
for d in "$@"; do cp $ISO/verif/harmless/$d/result.json /verif/harmless/$d/result.json 2>/dev/null; done
rm -rf $ISO
echo "ISOHARMLESS $TAG DONE"
