#!/bin/bash
# coverage.sh : how much of /repo's crates do the correspondence streams execute?
# Builds the harness with source-based coverage instrumentation (nightly toolchain, whose llvm-tools
# are installed), runs one seed of every generator the checks use, and writes
# /verif/coverage/correspondence_coverage.txt (per-file summary + the lines never executed).
# Supporting measurement for the tie (DESIGN.md 4.5); not one of the registered checks.
set -e
export CARGO_NET_OFFLINE=true
W=/verif/.build/cov; rm -rf $W; mkdir -p $W/prof /verif/coverage
T=$(ls -d ~/.rustup/toolchains/nightly-x86_64-unknown-linux-gnu/lib/rustlib/*/bin)
export LLVM_PROFILE_FILE=$W/prof/build-%p.profraw   # proc-macros and build scripts are instrumented too: keep their output out of /repo
(cd /verif/harness && RUSTFLAGS="-C instrument-coverage" cargo +nightly build --offline --target-dir $W/target 2>&1 | tail -1)
D=$W/target/debug/drive
export LLVM_PROFILE_FILE=$W/prof/d-%p.profraw
export VERIF_SCRATCH=$W/scratch
S=${1:-1}
for prof in disciplined modify toggle mixed unusual edge malformed ties reload wide redundant py; do $D book-gen --profile $prof --seed $S --hists 150 --ops 60 > /dev/null 2>&1; done
$D book-enum --depth 3 --shard 0/4 > /dev/null 2>&1
for k in env menv; do for prof in plain toggle overfull malformed unusual npy; do $D env-gen --kind $k --profile $prof --seed $S --hists 100 --rounds 8 >/dev/null 2>&1; done; done
for prof in plain reload malformed; do $D market-gen --profile $prof --seed $S --hists 100 --ops 80 > /dev/null 2>&1; done
$D agent-exact --seed $S --n 60 >/dev/null 2>&1; $D agent-audit --seed $S --n 60 > /dev/null 2>&1; $D momentum --seed $S --n 40 >/dev/null 2>&1
$D sim-gen --seed $S --n 20 --mix 1 > /dev/null 2>&1; $D price-helpers --seed $S --n 500 >/dev/null 2>&1; $D shapes --seed $S > /dev/null 2>&1; $D trunc --seed $S --n 2 > /dev/null 2>&1
rm -f $W/prof/build-*.profraw
$T/llvm-profdata merge -sparse $W/prof/*.profraw -o $W/all.profdata
OUT=/verif/coverage/correspondence_coverage.txt
{
  echo "# Source-based coverage of /repo/crates by the correspondence generators (one seed, quick sizes)"
  echo "# produced by tools/coverage.sh at /repo $(git -C /repo rev-parse --short HEAD); the Python layer (rust/src) is driven through the compiled extension and not measured here"
  $T/llvm-cov report $D -instr-profile=$W/all.profdata /repo/crates 2>/dev/null
  echo; echo "# lines never executed"
  for f in $(cd /repo/crates && ls order_book/src/*.rs step_sim/src/*.rs step_sim/src/agents/*.rs); do
    $T/llvm-cov show $D -instr-profile=$W/all.profdata /repo/crates/$f 2>/dev/null | grep -E "^\s+[0-9]+\|\s+0\|" | sed "s#^#$f:#"
  done
} > $OUT
rm -rf $W
tail -25 $OUT | head -20
