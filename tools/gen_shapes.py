#!/usr/bin/env python3
"""Generates harness/src/shapes_gen.rs: struct shapes for both derive macros (C20).

Shapes have 1..8 fields (plus two wide ones with 11 and 13) of mixed probe types (repeated types included), fields that are
themselves derived sets (nesting <= 2), field names deliberately NOT in alphabetical order,
single-line bodies without a trailing comma as well as multi-line bodies with one."""
import random

R = random.Random(20260929)
NAMES = ["zeta", "alpha", "mid", "b2", "yak", "core", "x9", "delta", "omega", "aa", "quoter", "hedger", "noise", "w", "k1", "beta",
         "_bg", "_b2", "__w", "r#type", "Upper"]
N_SHAPES = 24
# attributes and doc comments an agent field may carry: none of them changes what the derive must do
DOCS = ["/// quoters skip wide spreads", "/// ignored by the hedger", "#[doc = \"skips nothing; agents(skip) is not a thing\"]",
        "#[allow(dead_code)]", "/// hidden liquidity; do not exclude", "#[cfg(all())]", "/// no_update days are handled upstream",
        "/// PhantomData-free", "#[allow(unused)] /// skip"]


def make(prefix, idx, depth, made):
    n = R.choice([1, 1, 2, 3, 3, 4, 5, 6, 8]) if depth == 0 else R.choice([1, 2, 3])
    names = R.sample(NAMES, n)
    if n >= 2 and names == sorted(names):
        names.reverse()
    fields = []
    for nm in names:
        k = R.random()
        if depth < 2 and made and k < 0.25:
            fields.append((nm, ("set", R.choice(made))))
        else:
            fields.append((nm, ("probe", R.choice(["Probe", "Probe", "Probe2", "Probe3"]))))
    style = R.choice(["oneline", "multiline", "oneline"])
    if idx >= 20:
        # the last shapes are stamped out by a `macro_rules!` helper whose field types arrive as `$ty:ty` fragments
        style = "macro"
    return {"name": f"{prefix}{idx}", "fields": fields, "style": style}


def leaves(shape, shapes):
    out = []
    for nm, (k, t) in shape["fields"]:
        if k == "probe":
            out.append(t)
        else:
            out += leaves(shapes[t], shapes)
    return out


def tree(shape, shapes, counter):
    parts = []
    for nm, (k, t) in shape["fields"]:
        if k == "probe":
            parts.append(f"{'q' if t == 'Probe2' else 'p'}{counter[0]}")
            counter[0] += 1
        else:
            parts.append("( " + tree(shapes[t], shapes, counter) + " )")
    return " ".join(parts)


def emit(kind):
    prefix = "A" if kind == "agent" else "M"
    trait = "AgentSet" if kind == "agent" else "MarketAgentSet"
    shapes = {}
    order = []
    for i in range(N_SHAPES):
        s = make(prefix, i, 0 if i >= 6 else 2, order[:])
        shapes[s["name"]] = s
        order.append(s["name"])
    # wide shapes (more than ten members: two-digit member indices), drawn from their own generator so that the
    # shapes above stay what they were
    RW = random.Random(7700 + len(prefix) + ord(prefix))
    for n, style in ((11, "oneline"), (13, "macro")):
        names = RW.sample(NAMES, n)
        if names == sorted(names):
            names.reverse()
        s = {"name": f"{prefix}W{n}", "fields": [(nm, ("probe", RW.choice(["Probe", "Probe", "Probe2", "Probe3"]))) for nm in names], "style": style}
        shapes[s["name"]] = s
        order.append(s["name"])
    L = []
    for nm in order:
        s = shapes[nm]
        def ty(f):
            k, t = f[1]
            return t if k == "set" else (t if kind == "agent" else "M" + t)
        if s["style"] == "macro":
            body = ", ".join(f"{f[0]}: {ty(f)}" for f in s["fields"])
            L.append(f"declare_set!({trait}, {nm} {{ {body} }});")
        elif s["style"] == "oneline":
            body = ", ".join(f"pub {f[0]}: {ty(f)}" for f in s["fields"])
            L.append(f"#[derive({trait})]\n#[rustfmt::skip]\npub struct {nm} {{ {body} }}")
        else:
            def deco(f):
                return (f"    {R.choice(DOCS)}\n" if R.random() < 0.45 else "")
            body = "\n".join(f"{deco(f)}    pub {f[0]}: {ty(f)}," for f in s["fields"])
            L.append(f"#[derive({trait})]\npub struct {nm} {{\n{body}\n}}")
        # builder (tags in declaration preorder)
        b = [f"pub fn build_{nm}(log: &Log, next: &mut u32) -> {nm} {{"]
        for f in s["fields"]:
            k, t = f[1]
            if k == "probe":
                b.append(f"    let {f[0]} = {ty(f)}::new(log, next);")
            else:
                b.append(f"    let {f[0]} = build_{t}(log, next);")
        b.append(f"    {nm} {{ " + ", ".join(f[0] for f in s["fields"]) + " }")
        b.append("}")
        L.append("\n".join(b))
        # hand-written equivalent
        if kind == "agent":
            h = [f"pub fn hand_{nm}<R: RngCore>(s: &mut {nm}, env: &mut Env, rng: &mut R) {{"]
        else:
            h = [f"pub fn hand_{nm}<R: RngCore, const M: usize, const N: usize>(s: &mut {nm}, env: &mut MarketEnv<M, N>, rng: &mut R) {{"]
        for f in s["fields"]:
            k, t = f[1]
            if k == "probe":
                h.append(f"    s.{f[0]}.update(env, rng);")
            else:
                h.append(f"    hand_{t}(&mut s.{f[0]}, env, rng);")
        h.append("}")
        L.append("\n".join(h))
    # two structs with the SAME identifier (in sibling modules) deriving the same trait with different members
    P1 = "Probe" if kind == "agent" else "MProbe"
    P2 = "Probe2" if kind == "agent" else "MProbe2"
    sig = "<R: RngCore>(s: &mut Twin, env: &mut Env, rng: &mut R)" if kind == "agent" else "<R: RngCore, const M: usize, const N: usize>(s: &mut Twin, env: &mut MarketEnv<M, N>, rng: &mut R)"
    twins = [("a", [("first", P1), ("second", P2)]), ("b", [("second", P1), ("first", P1), ("third", P2)]), ("c", [("third", P2), ("second", P2), ("first", P1)])]
    for tag, fs in twins:
        body = "\n".join(f"        pub {n}: {t}," for n, t in fs)
        builds = "\n".join(f"        let {n} = {t}::new(log, next);" for n, t in fs)
        hands = "\n".join(f"        s.{n}.update(env, rng);" for n, t in fs)
        L.append(f"pub mod {prefix.lower()}twin_{tag} {{\n    use super::*;\n    #[derive({trait})]\n    pub struct Twin {{\n{body}\n    }}\n"
                 f"    pub fn build(log: &Log, next: &mut u32) -> Twin {{\n{builds}\n        Twin {{ {', '.join(n for n, _ in fs)} }}\n    }}\n"
                 f"    pub fn hand{sig} {{\n{hands}\n    }}\n}}")
    # runner over all shapes
    run = [f"pub fn run_{kind}_shapes(seed: u64, out: &mut Vec<String>) {{"]
    for tag, fs in twins:
        t = " ".join(f"{'p' if ty_ in ('Probe', 'MProbe') else 'q'}{i}" for i, (_, ty_) in enumerate(fs))
        m = f"{prefix.lower()}twin_{tag}"
        run.append(f'    out.push(run_{kind}_shape("{prefix}Twin_{tag}", "twin", "{t}", seed, |l, n| {m}::build(l, n), |s, e, r| s.update(e, r), |s, e, r| {m}::hand(s, e, r), |s, e, r| s.update(e, r), |s, e, r| {m}::hand(s, e, r)));')
    for nm in order:
        s = shapes[nm]
        t = tree(s, shapes, [0])
        style = s["style"]
        run.append(f'    out.push(run_{kind}_shape("{nm}", "{style}", "{t}", seed, |l, n| build_{nm}(l, n), |s, e, r| s.update(e, r), |s, e, r| hand_{nm}(s, e, r), |s, e, r| s.update(e, r), |s, e, r| hand_{nm}(s, e, r)));')
    run.append("}")
    L.append("\n".join(run))
    return "\n\n".join(L)


hdr = '''//! GENERATED by tools/gen_shapes.py — struct shapes for the derive macros (C20). Do not edit.
#![allow(clippy::all)]
#![allow(non_snake_case)]
use crate::shapes::*;
use bourse_de::agents::{Agent, AgentSet, MarketAgent, MarketAgentSet};
use bourse_de::{Env, MarketEnv};
use rand::RngCore;

/// Declares a derived set through a macro: the derive sees every field type as a `$ty:ty` fragment.
macro_rules! declare_set {
    ($tr:ident, $name:ident { $($field:ident : $ty:ty),* $(,)? }) => {
        #[derive($tr)]
        pub struct $name { $(pub $field: $ty),* }
    };
}
'''
open("/verif/harness/src/shapes_gen.rs", "w").write(hdr + "\n" + emit("agent") + "\n\n" + emit("market") + "\n")
print("written")
