#!/bin/bash
# lb.sh <Module> : build one Lean module, show only errors/warnings of that module's file
cd /verif/lean; exec 9>/verif/.build/locks/lean.lock; flock 9
f=$(echo "$1" | sed 's#\.#/#g').lean
lake build "$1" 2>&1 | grep -A12 -E "^(error|warning): $f|error: Lean exited|Build completed|build failed" | grep -v "^Note: This linter" | head -${2:-80}
