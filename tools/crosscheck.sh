#!/bin/bash
# crosscheck.sh <seed>:<prop,prop,...> ... : for each seeded change, run the named properties' checks
# (not only the one the change was written against) and print what each reports. Run it under
# tools/isorun.sh so that the real trees are untouched.
for a in "$@"; do
  s=${a%%:*}; ps=${a#*:}
  echo "== $s"
  /verif/tools/seedrun.sh /verif/seeded/$s/patch.diff ${ps//,/ }
done
