#!/usr/bin/env python3
"""seed_tables.py <suffix,suffix> [<git-rev for the 'as the checks stood' column>] : markdown table of the seeded changes
<prop>-<suffix> from their meta.json (what it does, as the checks stood, caught by now)."""
import glob
import json
import re
import subprocess
import sys

suffixes = sys.argv[1].split(",")
rev = sys.argv[2] if len(sys.argv) > 2 else None
stood_file = sys.argv[3] if len(sys.argv) > 3 else None


def verdict(d):
    if not d:
        return "—"
    if d.get("detected") and d.get("with_failing_input"):
        return "detected"
    if d.get("detected"):
        return "no failing input"
    o = [x["check"].split()[1] for x in d.get("other_properties_checks", []) if x.get("detected") and x.get("with_failing_input")]
    return "missed" + (f" (caught by {', '.join(o)})" if o else "")


stood = {}
if stood_file:
    cur = None
    for line in open(stood_file):
        if line.startswith("== "):
            cur = line.split()[1]
            stood[cur] = "missed"
        elif cur and line.startswith("[") and "VIOLATION" in line and stood[cur] == "missed":
            p = cur.split("-")[0]
            mine = re.findall(r"VIOLATION property=%s replay=\S+( no-failing-input-found)?" % p, line)
            if mine:
                stood[cur] = "detected" if any(not m for m in mine) else "no failing input"
        elif line.startswith("-- ext"):
            cur = None

print("| Seed | What it does (first sentence of the sub-agent's summary) | As the checks stood | Caught by (now) |")
print("|---|---|---|---|")
for f in sorted(glob.glob("/verif/seeded/*/meta.json"), key=lambda x: (x.split("/")[3].split("-")[0], int(x.split("/")[3].split("-")[1]))):
    sid = f.split("/")[3]
    if sid.split("-")[1] not in suffixes:
        continue
    m = json.load(open(f))
    d = m.get("detection", {})
    summ = (m.get("summary") or "").replace("\n", " ").replace("|", "/")[:230]
    if sid in stood:
        was = stood[sid]
    elif rev:
        try:
            old = json.loads(subprocess.run(["git", "-C", "/verif", "show", f"{rev}:seeded/{sid}/meta.json"], capture_output=True, text=True).stdout)
            was = verdict(old.get("detection"))
        except Exception:
            was = "—"
    else:
        was = "—"
    now = (d.get("reported") or [""])[0].replace("|", "/")[:150] if d.get("detected") else verdict(d)
    print(f"| {sid} | {summ} | {was} | {now} |")
