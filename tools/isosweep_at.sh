#!/bin/bash
# isosweep_at.sh <commit> <tag> <ids...> : as isosweep.sh, but the private copy of /verif is put back to <commit>
# first (tracked files only; the seeded changes to run are kept): "how would the checks have fared as they stood
# at <commit>". Detection records are NOT copied back; the log is /tmp/iso/<tag>.log.
set -u
COMMIT=$1; TAG=$2; shift; shift
ISO=/tmp/iso/$TAG
rm -rf $ISO; mkdir -p $ISO/verif $ISO/repo
rsync -a --exclude 'evidence/replays' /verif/ $ISO/verif/
rsync -a /repo/ $ISO/repo/
(cd $ISO/verif && git checkout -q $COMMIT -- . && git ls-files --others --exclude-standard lean harness checklib | xargs -r rm -f)
unshare -m bash -c "mount --bind $ISO/verif /verif && mount --bind $ISO/repo /repo && cd /verif && git -C /repo checkout -q -- . && bin/setup > /dev/null 2>&1; tools/seedsweep.sh $* " > /tmp/iso/$TAG.log 2>&1
rm -rf $ISO
echo "ISOSWEEP_AT $TAG DONE"
