#!/bin/bash
# verify_seed.sh <prop> <i> : confirm in a scratch worktree that /tmp/mut/<prop>/out/patch<i>.diff
#  (a) applies, (b) passes the existing suite, (c) makes demo<i> fail, (d) demo<i> passes without it.
# Writes /verif/seeded/<prop>-<i>/{patch.diff,demo.*,meta.json} when all confirmed.
set -u
P=$1; I=$2; BASE=${3:-/tmp/mut}; OUT=${4:-$I}
SRC=$BASE/$P/out
WT=/tmp/mut/verify_$P
export CARGO_NET_OFFLINE=true
export CARGO_TARGET_DIR=/tmp/mut/verify_target_$P; [ -d /tmp/mut/$P/target ] && export CARGO_TARGET_DIR=/tmp/mut/$P/target
[ -d $WT ] || git -C /repo worktree add --detach $WT HEAD -q
cd $WT && git checkout -q -- . && git clean -fdq
demo=$(ls $SRC/demo$I.* | head -1)
ext="${demo##*.}"
loc=$(python3 -c "import json;print(json.load(open('$SRC/meta$I.json')).get('demo_location',''))")
if [ "$ext" = "rs" ]; then
  if echo "$loc $(head -3 $demo)" | grep -q step_sim; then crate=step_sim; pkg=bourse-de; else crate=order_book; pkg=bourse-book; fi
  mkdir -p crates/$crate/tests && cp $demo crates/$crate/tests/seeddemo.rs
  cargo test -p $pkg --test seeddemo --offline >/tmp/mut/v_${P}_${I}_clean.log 2>&1; clean_rc=$?
  git apply $SRC/patch$I.diff || { echo "$P-$I: patch does not apply"; exit 1; }
  cargo test -p $pkg --test seeddemo --offline >/tmp/mut/v_${P}_${I}_mut.log 2>&1; mut_rc=$?
  rm -f crates/$crate/tests/seeddemo.rs
  cargo test --workspace --no-fail-fast --offline >/tmp/mut/v_${P}_${I}_suite.log 2>&1; suite_rc=$?
else
  echo "$P-$I: python demo - manual"; exit 2
fi
git checkout -q -- . && git clean -fdq
echo "$P-$I: demo_clean_rc=$clean_rc demo_mut_rc=$mut_rc suite_rc=$suite_rc"
if [ $clean_rc -eq 0 ] && [ $mut_rc -ne 0 ] && [ $suite_rc -eq 0 ]; then
  D=/verif/seeded/$P-$OUT; mkdir -p $D
  cp $SRC/patch$I.diff $D/patch.diff; cp $demo $D/demo.$ext
  python3 - <<PY
import json
m=json.load(open('$SRC/meta$I.json'))
out={"property":"$P","summary":m.get("summary"),"needs_to_manifest":m.get("what_it_needs_to_manifest"),
     "files_changed":m.get("files_changed"),"demo":"demo.$ext (crates/$crate/tests/)",
     "confirmed":{"existing_suite_passes_with_change":True,"demo_fails_with_change":True,"demo_passes_without_change":True,
                  "commands":["cargo test -p $pkg --test seeddemo --offline (clean: pass; with patch: fail)","cargo test --workspace --no-fail-fast --offline (with patch: pass)"]},
     "source":"independent sub-agent given only the property text"}
json.dump(out,open('$D/meta.json','w'),indent=1)
PY
  echo "$P-$I: CONFIRMED"
else
  echo "$P-$I: NOT CONFIRMED"
fi
