#!/bin/bash
# refresh_evidence.sh : rewrite every evidence/Cxx.json from a clean quick run on the unchanged tree and
# validate it (schema, discharged == obligations, no violation). Refuses to run on a modified /repo.
cd /verif
if [ -n "$(git -C /repo status --porcelain)" ]; then echo "/repo is modified: refusing"; exit 2; fi
bin/translate-all > /dev/null 2>&1
rc=0
for i in $(seq -w 1 20); do
  out=$(bin/check C$i --tier quick 2>&1 | tail -1); echo "$out"
  case "$out" in OK*) ;; *) rc=1;; esac
done
python3-vt - <<'PY' || rc=1
import json, glob, jsonschema, sys
sch = json.load(open('/root/.vp/EVIDENCE.schema.json'))
bad = 0
for f in sorted(glob.glob('/verif/evidence/C*.json')):
    d = json.load(open(f))
    jsonschema.validate(d, sch)
    c = d.get('coverage', {})
    if c.get('obligations') != c.get('discharged') or c.get('failed_obligations'):
        print('BAD evidence', f, c.get('obligations'), c.get('discharged')); bad = 1
print('evidence valid' if not bad else 'evidence INVALID')
sys.exit(bad)
PY
exit $rc
