#!/bin/bash
# verify_seed_py.sh <prop> <i> : as verify_seed.sh for demos written in Python against the compiled extension.
set -u
P=$1; I=$2; BASE=${3:-/tmp/mut}; OUT=${4:-$I}
SRC=$BASE/$P/out
WT=/tmp/mut/verify_$P
export CARGO_NET_OFFLINE=true
export CARGO_TARGET_DIR=/tmp/mut/verify_target_$P; [ -d /tmp/mut/$P/target ] && export CARGO_TARGET_DIR=/tmp/mut/$P/target
[ -d $WT ] || git -C /repo worktree add --detach $WT HEAD -q
cd $WT && git checkout -q -- . && git clean -fdq
run_demo() { BOURSE_CORE_SO=$CARGO_TARGET_DIR/debug/libbourse.so BOURSE_SO=$CARGO_TARGET_DIR/debug/libbourse.so BOURSE_REPO=$WT python3-vt $SRC/demo$I.py > $1 2>&1; }
cargo build -p bourse --offline > /dev/null 2>&1
run_demo /tmp/mut/v_${P}_${I}_clean.log; clean_rc=$?
git apply $SRC/patch$I.diff || { echo "$P-$I: patch does not apply"; exit 1; }
cargo build -p bourse --offline > /dev/null 2>&1
run_demo /tmp/mut/v_${P}_${I}_mut.log; mut_rc=$?
cargo test --workspace --no-fail-fast --offline >/tmp/mut/v_${P}_${I}_suite.log 2>&1; suite_rc=$?
git checkout -q -- . && git clean -fdq
echo "$P-$I: demo_clean_rc=$clean_rc demo_mut_rc=$mut_rc suite_rc=$suite_rc"
if [ $clean_rc -eq 0 ] && [ $mut_rc -ne 0 ] && [ $suite_rc -eq 0 ]; then
  D=/verif/seeded/$P-$OUT; mkdir -p $D
  cp $SRC/patch$I.diff $D/patch.diff; cp $SRC/demo$I.py $D/demo.py
  python3 - <<PY
import json
m=json.load(open('$SRC/meta$I.json'))
out={"property":"$P","summary":m.get("summary"),"needs_to_manifest":m.get("what_it_needs_to_manifest"),
     "files_changed":m.get("files_changed"),"demo":"demo.py (python3-vt, BOURSE_SO / BOURSE_CORE_SO = path of libbourse.so built with cargo build -p bourse)",
     "confirmed":{"existing_suite_passes_with_change":True,"demo_fails_with_change":True,"demo_passes_without_change":True,
                  "commands":["cargo build -p bourse --offline; python3-vt demo.py (clean: exit 0; with patch: non-zero)","cargo test --workspace --no-fail-fast --offline (with patch: pass)"]},
     "source":"independent sub-agent given only the property text"}
json.dump(out,open('$D/meta.json','w'),indent=1)
PY
  echo "$P-$I: CONFIRMED"
else
  echo "$P-$I: NOT CONFIRMED"
fi
