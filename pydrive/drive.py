#!/usr/bin/env python3-vt
"""Drives the REAL compiled extension (bourse.core) under CPython on the operation streams written by
the Rust harness and compares every Python-visible value with what the Rust core reported for the
same sequence (the `I` lines of the stream).

  drive.py STREAM [--seed N] [--snapdir DIR]

Output: `A C18|C19 <hid> <opidx> <clauses> tr=1 op=<op>` per disagreement, `STAT k v`, `DONE …`."""
import os
import random
import sys

import loader

core, dp = loader.install()
import numpy as np  # noqa: E402

STATUS = {0: "N", 1: "A", 2: "F", 3: "C", 4: "R"}   # documented: 0 New, 1 Active, 2 Filled, 3 Cancelled, 4 Rejected
STATUS_NAME = {"N": "new", "A": "active", "F": "filled", "C": "cancelled", "R": "rejected"}
OUT = []
STATS = {}


def bump(k, n=1):
    STATS[k] = STATS.get(k, 0) + n


def report(prop, hid, idx, clauses, op):
    OUT.append(f"A {prop} {hid} {idx} {','.join(clauses)} tr=1 op={op.replace(' ', '_')}")


def kv(tokens):
    d = {}
    for t in tokens:
        if "=" in t:
            k, v = t.split("=", 1)
            d[k] = v
    return d


def order_s(o):
    side, status, arr, end, vol, svol, price, trader, oid = o
    if side is not True and side is not False:
        return "BADSIDE"
    return f"{oid}:{'b' if side else 'a'}:{STATUS.get(status, '?')}:{arr}:{end}:{vol}:{svol}:{price}:{trader}"


def trade_s(t):
    tt, side, price, vol, act, pas = t
    return f"{tt}:{'b' if side else 'a'}:{price}:{vol}:{act}:{pas}"


def join(xs):
    xs = list(xs)
    return ";".join(xs) if xs else "-"


def opt(s):
    return None if s == "-" else int(s)


def series(a):
    a = [int(x) for x in a]
    return ",".join(map(str, a)) if a else "-"


# ------------------------------------------------------------------------------------ OrderBook

def book_obs(b):
    ba = b.bid_ask()
    bb = b.best_bid_vol_and_orders()
    ab = b.best_ask_vol_and_orders()
    orders = b.get_orders()
    return {
        "ba": f"{ba[0]},{ba[1]}", "v": f"{b.bid_vol()},{b.ask_vol()}", "bb": f"{bb[0]},{bb[1]}", "ab": f"{ab[0]},{ab[1]}",
        "bv": f"{b.best_bid_vol()},{b.best_ask_vol()}", "o": join(order_s(o) for o in orders), "x": join(trade_s(t) for t in b.get_trades()),
        "status": join(STATUS.get(b.order_status(i), "?") for i in range(len(orders))),
    }


BOOK_KEYS = ["ba", "v", "bb", "ab", "bv", "o", "x"]
BAD_U32 = [-1, 2 ** 32, 2 ** 40]
BAD_U64 = [-1, 2 ** 64]


def overflow_probe_book(b, rnd):
    """One call with an out-of-range integer: must raise OverflowError and change nothing."""
    n = len(b.get_orders())
    calls = [
        lambda: b.place_order(True, rnd.choice(BAD_U32), 1, 10), lambda: b.place_order(False, 1, rnd.choice(BAD_U32), 10),
        lambda: b.place_order(True, 1, 1, rnd.choice(BAD_U32)), lambda: b.set_time(rnd.choice(BAD_U64)),
        lambda: b.cancel_order(rnd.choice(BAD_U64)), lambda: b.modify_order(rnd.choice(BAD_U64), None, None),
        lambda: b.modify_order(0 if n else 2 ** 64, rnd.choice(BAD_U32), None) if n else b.modify_order(2 ** 64, None, None),
        lambda: b.modify_order(0, None, rnd.choice(BAD_U32)) if n else b.modify_order(-1, None, None),
        lambda: core.OrderBook(rnd.choice(BAD_U64), 1, True), lambda: core.OrderBook(0, rnd.choice(BAD_U32), True),
    ]
    before = book_obs(b)
    try:
        rnd.choice(calls)()
        res = "no_exception"
    except OverflowError:
        res = "ok"
    except Exception as ex:  # noqa: BLE001
        res = "wrong_exception_" + type(ex).__name__
    after = book_obs(b)
    bad = []
    if res != "ok":
        bad.append("out_of_range_integer_" + res)
    if after != before:
        bad.append("object_changed_by_rejected_call")
    return bad


def run_book(hid, header, items, rnd, snapdir):
    t0, tick, trading, _l = int(header[0]), int(header[1]), header[2] == "1", header[3]
    b = core.OrderBook(t0, tick, trading)
    first = True
    idx = -1
    for op, rust in items:
        if first:
            first = False
        else:
            idx += 1
            t = op.split(" ")
            try:
                res = "u"
                if t[0] == "cap":
                    try:
                        i = b.place_order(t[1] == "b", int(t[2]), int(t[3]), opt(t[4]))
                        res = f"ok:{i}"
                    except ValueError:
                        res = "err"
                elif t[0] == "cancel":
                    b.cancel_order(int(t[1]))
                elif t[0] == "modify":
                    b.modify_order(int(t[1]), opt(t[2]), opt(t[3]))
                elif t[0] == "time":
                    b.set_time(int(t[1]))
                elif t[0] == "trading":
                    b.enable_trading() if t[1] == "1" else b.disable_trading()
                elif t[0] == "reload":
                    path = os.path.join(snapdir, f"{hid}.reload.json")
                    b.save_json_snapshot(path, t[1] == "pretty")
                    b = core.order_book_from_json(path)
                else:
                    bump("book_op_unsupported")
                    return
            except BaseException as ex:  # noqa: BLE001  (pyo3 panics derive from BaseException)
                report("C18", hid, idx, ["python_exception_" + type(ex).__name__], op)
                return
            r = rust["r"]
            rr = "err" if r.startswith("err") else r
            if rr != res and not (t[0] == "reload"):
                report("C18", hid, idx, [f"result_{res}_vs_rust_{rr}"], op)
            bump("book_op:" + t[0])
        obs = book_obs(b)
        bad = [k for k in BOOK_KEYS if obs[k] != rust.get(k)]
        if rust.get("o", "-") != "-":
            exp_status = join(x.split(":")[2] for x in rust["o"].split(";"))
            if obs["status"] != exp_status:
                bad.append("order_status")
        # data-frame helpers on the current records (C19)
        check_frames(hid, idx, op, b.get_orders(), b.get_trades(), rust)
        if bad:
            report("C18", hid, idx, bad, op if not first else "init")
            return
        if rnd.random() < 0.08:
            bad = overflow_probe_book(b, rnd)
            bump("overflow_probe")
            if bad:
                report("C18", hid, idx, bad, op)
                return
    # cross-loading of snapshots: Python writes, Rust reads (and the other way round)
    if snapdir:
        b.save_json_snapshot(os.path.join(snapdir, f"{hid}.py.json"), rnd.random() < 0.5)
        rp = os.path.join(snapdir, f"{hid}.rust.json")
        if os.path.exists(rp):
            try:
                b2 = core.order_book_from_json(rp)
                o2 = book_obs(b2)
                bad = [k for k in BOOK_KEYS if o2[k] != obs[k]]
                if bad:
                    report("C18", hid, idx, ["rust_snapshot_loaded_in_python_differs:" + "+".join(bad)], "snapshot")
                bump("rust_snapshot_loaded")
            except BaseException as ex:  # noqa: BLE001
                report("C18", hid, idx, ["rust_snapshot_rejected_by_python_" + type(ex).__name__], "snapshot")
    bump("book_histories")


def check_frames(hid, idx, op, orders, trades, rust):
    try:
        df = dp.orders_to_dataframe(orders)
        exp = [] if rust.get("o", "-") == "-" else [x.split(":") for x in rust["o"].split(";")]
        # harness order string: id:side:status:arr:end:vol:svol:price:trader
        want = {"order_id": [int(e[0]) for e in exp], "side": ["bid" if e[1] == "b" else "ask" for e in exp],
                "status": [STATUS_NAME[e[2]] for e in exp], "arr_time": [int(e[3]) for e in exp], "end_time": [int(e[4]) for e in exp],
                "vol": [int(e[5]) for e in exp], "start_vol": [int(e[6]) for e in exp], "price": [int(e[7]) for e in exp],
                "trader_id": [int(e[8]) for e in exp]}
        bad = []
        if sorted(df.columns) != sorted(want):
            bad.append("orders_frame_columns_" + "+".join(c.replace(" ", "~") for c in df.columns if c not in want))
        for c in want:
            if c in df.columns and list(df[c]) != want[c]:
                bad.append("orders_frame_column_" + c)
        tf = dp.trades_to_dataframe(trades)
        texp = [] if rust.get("x", "-") == "-" else [x.split(":") for x in rust["x"].split(";")]
        twant = {"time": [int(e[0]) for e in texp], "side": ["bid" if e[1] == "b" else "ask" for e in texp], "price": [int(e[2]) for e in texp],
                 "vol": [int(e[3]) for e in texp], "active_id": [int(e[4]) for e in texp], "passive_id": [int(e[5]) for e in texp]}
        if sorted(tf.columns) != sorted(twant):
            bad.append("trades_frame_columns")
        for c in twant:
            if c in tf.columns and list(tf[c]) != twant[c]:
                bad.append("trades_frame_column_" + c)
        if bad:
            report("C19", hid, idx, bad, op)
        bump("frames_checked")
    except BaseException as ex:  # noqa: BLE001
        report("C19", hid, idx, ["frame_helper_exception_" + type(ex).__name__], op)


# ------------------------------------------------------------------------------------ StepEnv

def parse_l2(s):
    hd, bl, al = s.split("/")
    bp, ap, bv, av = map(int, hd.split(","))
    f = lambda x: [tuple(map(int, p.split(":"))) for p in x.split(";")] if x != "-" else []  # noqa: E731
    return bp, ap, bv, av, f(bl), f(al)


def env_obs(e):
    ba = e.bid_ask
    bb = e.best_bid_vol_and_orders
    ab = e.best_ask_vol_and_orders
    orders = e.get_orders()
    return {"t": str(e.time), "tv": str(e.trade_vol), "ba": f"{ba[0]},{ba[1]}", "v": f"{e.bid_vol},{e.ask_vol}",
            "bb": f"{bb[0]},{bb[1]}", "ab": f"{ab[0]},{ab[1]}", "bv": f"{e.best_bid_vol},{e.best_ask_vol}",
            "o": join(order_s(o) for o in orders), "x": join(trade_s(t) for t in e.get_trades()),
            "status": join(STATUS.get(e.order_status(i), "?") for i in range(len(orders)))}


def doc_l1(tv, c2):
    bp, ap, bv, av, bl, al = c2
    return [tv, bp, ap, bv, av, bl[0][0], bl[0][1], al[0][0], al[0][1]]


def doc_l2(tv, c2):
    bp, ap, bv, av, bl, al = c2
    out = [tv, bp, ap, bv, av]
    for i in range(10):
        out += [bl[i][0], bl[i][1], al[i][0], al[i][1]]
    return out


MARKET_KEYS = (["bid_price", "ask_price", "bid_vol", "ask_vol", "trade_vol"] + [f"bid_vol_{i}" for i in range(10)]
               + [f"ask_vol_{i}" for i in range(10)] + [f"n_bid_{i}" for i in range(10)] + [f"n_ask_{i}" for i in range(10)])


def check_market_data(md, E):
    bad = []
    if sorted(md.keys()) != sorted(MARKET_KEYS):
        bad.append("market_data_keys")
    want = {"bid_price": E["bp"], "ask_price": E["ap"], "bid_vol": E["bv"], "ask_vol": E["av"], "trade_vol": E["tvs"]}
    for i in range(10):
        want[f"bid_vol_{i}"] = E["bva"].split(":")[i]
        want[f"ask_vol_{i}"] = E["ava"].split(":")[i]
        want[f"n_bid_{i}"] = E["boa"].split(":")[i]
        want[f"n_ask_{i}"] = E["aoa"].split(":")[i]
    for k, w in want.items():
        if k in md and series(md[k]) != w:
            bad.append("market_data_" + k)
    return bad


def env_arrays(hid, idx, op, e, rust, E, numpy_env=None):
    """C19: arrays, dictionaries — each element against the documented quantity taken from the Rust core."""
    c2 = parse_l2(E["c2"])
    bad = []
    # "for every market state": right after construction and right after a step the observation describes the MARKET - the
    # live book's own level-2 data - not merely whatever snapshot the environment happens to hold
    if (op == "init" or op.startswith("step")) and "l2" in rust and parse_l2(rust["l2"]) != c2:
        live = parse_l2(rust["l2"])
        l2now = [int(x) for x in e.level_2_data_array()]
        tv0 = int(E["tvs"].split(",")[-1]) if E["tvs"] not in ("-", "") else 0
        bad.append("observation_is_not_the_market_state:" + "+".join(str(i) for i, (a, b) in enumerate(zip(l2now, doc_l2(tv0, live))) if a != b))
    # index 0 is documented as "trade volume (in the last step)": the last entry of the per-step series the core
    # recorded (itself reconciled with the trade log by C11), 0 before the first step - not the book's running counter
    tv = int(E["tvs"].split(",")[-1]) if E["tvs"] not in ("-", "") else 0
    l1 = [int(x) for x in e.level_1_data_array()]
    l2 = [int(x) for x in e.level_2_data_array()]
    if len(l1) != 9:
        bad.append(f"StepEnv_level_1_length_{len(l1)}")
    if l1 != doc_l1(tv, c2):
        bad.append("StepEnv_level_1_data_array:" + "+".join(str(i) for i, (a, b) in enumerate(zip(l1, doc_l1(tv, c2))) if a != b))
    if len(l2) != 45:
        bad.append(f"StepEnv_level_2_length_{len(l2)}")
    if l2 != doc_l2(tv, c2):
        bad.append("StepEnv_level_2_data_array:" + "+".join(str(i) for i, (a, b) in enumerate(zip(l2, doc_l2(tv, c2))) if a != b))
    p = e.get_prices(); v = e.get_volumes(); tvs = e.get_touch_volumes(); tc = e.get_touch_order_counts()  # noqa: E702
    if (series(p[0]), series(p[1])) != (E["bp"], E["ap"]):
        bad.append("get_prices")
    if (series(v[0]), series(v[1])) != (E["bv"], E["av"]):
        bad.append("get_volumes")
    if (series(tvs[0]), series(tvs[1])) != (E["bva"].split(":")[0], E["ava"].split(":")[0]):
        bad.append("get_touch_volumes")
    if (series(tc[0]), series(tc[1])) != (E["boa"].split(":")[0], E["aoa"].split(":")[0]):
        bad.append("get_touch_order_counts")
    if series(e.get_trade_volumes()) != E["tvs"]:
        bad.append("get_trade_volumes")
    bad += check_market_data(e.get_market_data(), E)
    if numpy_env is not None:
        n1 = [int(x) for x in numpy_env.level_1_data()]
        n2 = [int(x) for x in numpy_env.level_2_data()]
        if n1 != doc_l1(tv, c2):
            bad.append("StepEnvNumpy_level_1_data:" + "+".join(str(i) for i, (a, b) in enumerate(zip(n1, doc_l1(tv, c2))) if a != b) + f"_len{len(n1)}")
        if n2 != doc_l2(tv, c2):
            bad.append("StepEnvNumpy_level_2_data:" + "+".join(str(i) for i, (a, b) in enumerate(zip(n2, doc_l2(tv, c2))) if a != b) + f"_len{len(n2)}")
        bad += ["numpy_" + x for x in check_market_data(numpy_env.get_market_data(), E)]
        if join(order_s(o) for o in numpy_env.get_orders()) != rust["o"] or join(trade_s(t) for t in numpy_env.get_trades()) != rust["x"]:
            bad.append("StepEnvNumpy_records_differ")
    if bad:
        report("C19", hid, idx, bad, op)
    bump("array_checks")


def overflow_probe_env(e, rnd):
    calls = [lambda: e.place_order(True, rnd.choice(BAD_U32), 1, 10), lambda: e.place_order(True, 1, 1, rnd.choice(BAD_U32)),
             lambda: e.cancel_order(rnd.choice(BAD_U64)), lambda: e.modify_order(0, rnd.choice(BAD_U32), None),
             lambda: e.modify_order(rnd.choice(BAD_U64), None, 1), lambda: core.StepEnv(rnd.choice(BAD_U64), 0, 1, 10, True),
             lambda: core.StepEnv(1, 0, rnd.choice(BAD_U32), 10, True)]
    before = env_obs(e)
    try:
        rnd.choice(calls)()
        res = "no_exception"
    except OverflowError:
        res = "ok"
    except Exception as ex:  # noqa: BLE001
        res = "wrong_exception_" + type(ex).__name__
    bad = []
    if res != "ok":
        bad.append("out_of_range_integer_" + res)
    if env_obs(e) != before:
        bad.append("object_changed_by_rejected_call")
    return bad


ENV_KEYS = ["t", "tv", "o", "x"]


def run_env(hid, header, items, rnd):
    seed, t0, ticks, step, trading, _l = int(header[0]), int(header[1]), header[2], int(header[3]), header[4] == "1", header[5]
    tick = int(ticks.split(",")[0])
    e = core.StepEnv(seed, t0, tick, step, trading)
    e_again = core.StepEnv(seed, t0, tick, step, trading)       # determinism in the seed
    # StepEnvNumpy has no modify / market orders: mirrored only while the history uses neither
    numpy_ok = all(not (op.startswith("qmodify") or (op.startswith("submit") and op.endswith(" -"))) for op, _ in items)
    ne = core.StepEnvNumpy(seed, t0, tick, step, trading) if numpy_ok else None
    first = True
    idx = -1
    for op, (rust, E) in items:
        if first:
            first = False
        else:
            idx += 1
            t = op.split(" ")
            res = "u"
            try:
                for env in (e, e_again):
                    if t[0] == "submit":
                        try:
                            i = env.place_order(t[2] == "b", int(t[3]), int(t[4]), opt(t[5]))
                            res = f"ok:{i}"
                        except ValueError:
                            res = "err"
                    elif t[0] == "qcancel":
                        env.cancel_order(int(t[2]))
                    elif t[0] == "qmodify":
                        env.modify_order(int(t[2]), opt(t[3]), opt(t[4]))
                    elif t[0] == "step":
                        env.step()
                    elif t[0] == "trading":
                        env.enable_trading() if t[1] == "1" else env.disable_trading()
                if ne is not None:
                    if t[0] == "submit":
                        try:
                            if rnd.random() < 0.5:
                                ne.submit_limit_orders((np.array([t[2] == "b"]), np.array([int(t[3])], dtype=np.uint32),
                                                        np.array([int(t[4])], dtype=np.uint32), np.array([int(t[5])], dtype=np.uint32)))
                            else:
                                ne.submit_instructions((np.array([1], dtype=np.uint32), np.array([t[2] == "b"]), np.array([int(t[3])], dtype=np.uint32),
                                                        np.array([int(t[4])], dtype=np.uint32), np.array([int(t[5])], dtype=np.uint32),
                                                        np.array([0], dtype=np.uint64)))
                        except ValueError:
                            pass
                    elif t[0] == "qcancel":
                        if rnd.random() < 0.5:
                            ne.submit_cancellations(np.array([int(t[2])], dtype=np.uint64))
                        else:
                            ne.submit_instructions((np.array([2], dtype=np.uint32), np.array([True]), np.array([0], dtype=np.uint32),
                                                    np.array([0], dtype=np.uint32), np.array([0], dtype=np.uint32), np.array([int(t[2])], dtype=np.uint64)))
                    elif t[0] == "step":
                        ne.step()
                    elif t[0] == "trading":
                        ne.enable_trading() if t[1] == "1" else ne.disable_trading()
            except BaseException as ex:  # noqa: BLE001
                report("C18", hid, idx, ["python_exception_" + type(ex).__name__], op)
                return
            r = rust["r"]
            rr = "err" if r.startswith("err") else r
            if rr != res:
                report("C18", hid, idx, [f"result_{res}_vs_rust_{rr}"], op)
            bump("env_op:" + t[0])
        obs = env_obs(e)
        c2 = parse_l2(E["c2"])
        want = dict(rust)
        want.update({"ba": f"{c2[0]},{c2[1]}", "v": f"{c2[2]},{c2[3]}", "bb": f"{c2[4][0][0]},{c2[4][0][1]}", "ab": f"{c2[5][0][0]},{c2[5][0][1]}",
                     "bv": f"{c2[4][0][0]},{c2[5][0][0]}"})
        bad = [k for k in ENV_KEYS + ["ba", "v", "bb", "ab", "bv"] if obs[k] != want.get(k)]
        if rust.get("o", "-") != "-" and obs["status"] != join(x.split(":")[2] for x in rust["o"].split(";")):
            bad.append("order_status")
        if env_obs(e_again) != obs:
            bad.append("same_seed_gives_different_run")
        env_arrays(hid, idx, op, e, rust, E, ne)
        check_frames(hid, idx, op, e.get_orders(), e.get_trades(), rust)
        if bad:
            report("C18", hid, idx, bad, op if idx >= 0 else "init")
            return
        if rnd.random() < 0.05:
            bad = overflow_probe_env(e, rnd)
            bump("overflow_probe")
            if bad:
                report("C18", hid, idx, bad, op)
                return
    # the pure-Python runner on an environment that already has a history: `run` returns the environment's own
    # market-data dictionary (documented keys bound to the full series), for 0 and for a few more steps
    pkg = sys.modules.get("bourse")
    ss = getattr(pkg, "step_sim", None)
    if ss is None:
        report("C19", hid, idx, ["python_package_step_sim_does_not_import"], "run")
    else:
        for env, use_np in ((e_again, False), (ne, True)):
            if env is None:
                continue
            for k in (0, 2):
                try:
                    before = len(env.get_market_data()["trade_vol"])
                    out = ss.run(env, [], k, 11, show_progress=(k == 2), use_numpy=use_np)
                    md = env.get_market_data()
                    bad = []
                    if set(out.keys()) != set(md.keys()):
                        bad.append("runner_keys_differ")
                    elif any(len(out[key]) != before + k or list(out[key]) != list(md[key]) for key in md):
                        bad.append("runner_series_differ_from_environment")
                    if bad:
                        report("C19", hid, idx, bad, f"run_{'numpy' if use_np else 'plain'}_{k}")
                    bump("runner_calls")
                except BaseException as ex:  # noqa: BLE001
                    report("C19", hid, idx, ["runner_exception_" + type(ex).__name__], "run")
    bump("env_histories")
    if ne is not None:
        bump("env_histories_with_numpy_env")


def crowd_probe():
    """One crowded level per side (more than 2^16 resting orders at one price: a legal market state): the market-data
    dictionary, the observation arrays and the touch getters must agree on volumes and order counts."""
    nb, na = 65537, 70000
    envs = [("StepEnv", core.StepEnv(3, 5, 1, 1000, True))]
    try:
        import numpy  # noqa: F401
        envs.append(("StepEnvNumpy", core.StepEnvNumpy(3, 5, 1, 1000, True)))
    except Exception:  # noqa: BLE001
        pass
    for name, e in envs:
        try:
            if name == "StepEnv":
                for _ in range(nb):
                    e.place_order(True, 1, 7, 100)
                for _ in range(na):
                    e.place_order(False, 1, 8, 110)
            else:
                import numpy as np
                e.submit_limit_orders((np.array([True] * nb + [False] * na), np.array([1] * (nb + na), dtype=np.uint32),
                                       np.array([7] * nb + [8] * na, dtype=np.uint32), np.array([100] * nb + [110] * na, dtype=np.uint32)))
            e.step()
            e.step()
            md = e.get_market_data()
            bad = []
            for key, want in (("n_bid_0", nb), ("n_ask_0", na), ("bid_vol_0", nb), ("ask_vol_0", na), ("bid_vol", nb), ("ask_vol", na)):
                if int(md[key][-1]) != want:
                    bad.append(f"crowd_market_data:{key}")
            arr = e.level_2_data_array() if name == "StepEnv" else e.level_2_data()
            for k, want in ((3, nb), (4, na), (5, nb), (6, nb), (7, na), (8, na)):
                if int(arr[k]) != want:
                    bad.append(f"crowd_{name}_level_2_array:{k}")
            if bad:
                report("C19", "crowd-" + name, 0, bad, "step")
            STATS["crowd_probes"] = STATS.get("crowd_probes", 0) + 1
        except BaseException as ex:  # noqa: BLE001
            report("C19", "crowd-" + name, 0, ["crowd_exception_" + type(ex).__name__ + "_" + str(ex)[:50].replace(" ", "_")], "crowd")


def main():
    args = sys.argv[1:]
    stream = args[0]
    seed = int(args[args.index("--seed") + 1]) if "--seed" in args else 1
    if "--crowd" in args:
        crowd_probe()
    snapdir = args[args.index("--snapdir") + 1] if "--snapdir" in args else None
    if snapdir:
        os.makedirs(snapdir, exist_ok=True)
    rnd = random.Random(seed)
    cur = None

    def flush():
        if cur is None:
            return
        hid, kind, header, items = cur
        kind = kind.replace("-ended", "")
        try:
            if kind == "book":
                run_book(hid, header, items, rnd, snapdir)
            else:
                run_env(hid, header, items, rnd)
        except BaseException as ex:  # noqa: BLE001
            report("C18", hid, -1, ["driver_exception_" + type(ex).__name__ + "_" + str(ex)[:60].replace(" ", "_")], "history")

    pending = "init"
    with open(stream) as f:
        for line in f:
            t = line.rstrip("\n").split(" ")
            if t[0] == "H":
                flush()
                kind = t[3]
                if kind == "book" and t[-1] == "10":
                    cur = (t[1], "book", t[4:], [])
                elif kind == "env" and t[-1] == "10":
                    cur = (t[1], "env", t[4:], [])
                else:
                    cur = None
                pending = "init"
            elif t[0] == "O":
                pending = " ".join(t[1:])
            elif t[0] == "I" and cur is not None and not cur[1].endswith("-ended"):
                if cur[1] == "book":
                    cur[3].append((pending, kv(t[1:])))
                else:
                    segs = " ".join(t[1:]).split(" | ")
                    if len(segs) < 3:
                        # the Rust core aborted on this operation (an arithmetic overflow outside the valid histories): the
                        # history ends before it
                        cur = (cur[0], cur[1] + "-ended", cur[2], cur[3])
                        continue
                    d = kv(segs[0].split(" "))
                    d.update(kv(segs[1].split(" ")))
                    cur[3].append((pending, (d, kv(segs[2].split(" ")))))
    flush()
    for l in OUT:
        print(l)
    for k, v in sorted(STATS.items()):
        print(f"STAT {k} {v}")
    print(f"DONE histories={STATS.get('book_histories', 0) + STATS.get('env_histories', 0)} A={len(OUT)}")


if __name__ == "__main__":
    main()
