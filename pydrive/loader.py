"""Load the compiled extension (libbourse.so) as `bourse.core` and the pure-Python package from
/repo/src/bourse, with a minimal stand-in for the three pandas calls the data-frame helpers make."""
import importlib.machinery
import importlib.util
import os
import sys
import types

SO = os.environ.get("BOURSE_SO", "/verif/.build/pyext/debug/libbourse.so")
SRC = os.environ.get("BOURSE_PY_SRC", "/repo/src")


class _Series(list):
    def map(self, d):
        return _Series([d[x] for x in self])


class _DataFrame:
    """`pd.DataFrame.from_records(records, columns=columns)`, `df[col]`, `df[col] = series`."""

    def __init__(self, records, columns):
        self.columns = list(columns)
        self._records = [tuple(r) for r in records]
        for r in self._records:
            if len(r) != len(self.columns):
                raise ValueError(f"{len(self.columns)} columns passed, passed data had {len(r)} columns")
        self._data = {c: _Series([r[i] for r in self._records]) for i, c in enumerate(self.columns)}

    @classmethod
    def from_records(cls, records, columns=None):
        return cls(records, columns)

    def __getitem__(self, c):
        return self._data[c]

    def __setitem__(self, c, v):
        if c not in self._data:
            self.columns.append(c)
        self._data[c] = _Series(v)


def install():
    pd = types.ModuleType("pandas")
    pd.DataFrame = _DataFrame
    sys.modules.setdefault("pandas", pd)
    pkg = types.ModuleType("bourse")
    pkg.__path__ = [os.path.join(SRC, "bourse")]
    sys.modules["bourse"] = pkg
    loader = importlib.machinery.ExtensionFileLoader("bourse.core", SO)
    # the init symbol is PyInit_core: load under the name `core` then alias
    spec = importlib.util.spec_from_file_location("core", SO)
    core = importlib.util.module_from_spec(spec)
    spec.loader.exec_module(core)
    sys.modules["bourse.core"] = core
    pkg.core = core
    spec2 = importlib.util.spec_from_file_location("bourse.data_processing", os.path.join(SRC, "bourse", "data_processing.py"))
    dp = importlib.util.module_from_spec(spec2)
    sys.modules["bourse.data_processing"] = dp
    spec2.loader.exec_module(dp)
    pkg.data_processing = dp
    # `bourse.step_sim` (pure Python: runner and agent base classes); tqdm is replaced by a plain range
    if "tqdm" not in sys.modules:
        tq = types.ModuleType("tqdm")
        tq.trange = lambda n, **kw: range(n)
        tq.tqdm = lambda it, **kw: it
        sys.modules["tqdm"] = tq
    try:
        pkg.step_sim = importlib.import_module("bourse.step_sim")
    except Exception as ex:  # noqa: BLE001 - reported by the driver as a finding
        pkg.step_sim = None
        pkg.step_sim_error = repr(ex)
    return core, dp
