//! Probe agents and the per-shape runner for the derive-macro check (C20).
//! A probe logs `(its tag, the next generator output(s), how many orders the environment holds)` and
//! submits one order, so both the shared generator and the shared environment show the call order.

use bourse_book::types::Side;
use bourse_de::agents::{Agent, MarketAgent};
use bourse_de::{Env, MarketEnv};
use rand::RngCore;
use rand_xoshiro::rand_core::SeedableRng;
use rand_xoshiro::Xoroshiro128StarStar;
use std::cell::RefCell;
use std::rc::Rc;

pub type Log = Rc<RefCell<Vec<(u32, u64, usize)>>>;

thread_local! {
    /// Set during the second run of every shape: the probes then also take (and log) one 32-bit draw.
    static DRAW32: std::cell::Cell<bool> = const { std::cell::Cell::new(false) };
}

/// A generator whose 32-bit output is NOT the low half of its 64-bit output (it is the high half) and whose byte
/// filling is its own: "the same random generator" (C20) means the caller's generator itself, whatever its type -
/// a wrapper that re-derives one kind of draw from another is only transparent for some generators.
pub struct OddRng(pub Xoroshiro128StarStar);
impl RngCore for OddRng {
    fn next_u32(&mut self) -> u32 { (self.0.next_u64() >> 32) as u32 }
    fn next_u64(&mut self) -> u64 { self.0.next_u64() }
    fn fill_bytes(&mut self, dest: &mut [u8]) { for b in dest.iter_mut() { *b = (self.0.next_u64() >> 56) as u8; } }
    fn try_fill_bytes(&mut self, dest: &mut [u8]) -> Result<(), rand::Error> { self.fill_bytes(dest); Ok(()) }
}

fn draw32<R: RngCore>(tag: u32, log: &Log, n: usize, rng: &mut R) {
    if DRAW32.with(|c| c.get()) {
        let w = rng.next_u32();
        let mut b = [0u8; 3];
        rng.fill_bytes(&mut b);
        log.borrow_mut().push((tag, ((w as u64) << 24) | ((b[0] as u64) << 16) | ((b[1] as u64) << 8) | b[2] as u64, n));
    }
}

macro_rules! probe {
    ($name:ident, $mname:ident, $draws:expr) => {
        pub struct $name { tag: u32, log: Log }
        impl $name {
            pub fn new(log: &Log, next: &mut u32) -> Self { let tag = *next; *next += 1; Self { tag, log: log.clone() } }
        }
        impl Agent for $name {
            fn update<R: RngCore>(&mut self, env: &mut Env, rng: &mut R) {
                for _ in 0..$draws {
                    let d = rng.next_u64();
                    self.log.borrow_mut().push((self.tag, d, env.get_orders().len()));
                }
                draw32(self.tag, &self.log, env.get_orders().len(), rng);
                env.place_order(Side::Bid, 1, self.tag, Some(10)).unwrap();
            }
        }
        pub struct $mname { tag: u32, log: Log }
        impl $mname {
            pub fn new(log: &Log, next: &mut u32) -> Self { let tag = *next; *next += 1; Self { tag, log: log.clone() } }
        }
        impl MarketAgent for $mname {
            fn update<R: RngCore, const M: usize, const N: usize>(&mut self, env: &mut MarketEnv<M, N>, rng: &mut R) {
                for _ in 0..$draws {
                    let d = rng.next_u64();
                    self.log.borrow_mut().push((self.tag, d, env.get_orders(0).len()));
                }
                draw32(self.tag, &self.log, env.get_orders(0).len(), rng);
                env.place_order(0, Side::Bid, 1, self.tag, Some(10)).unwrap();
            }
        }
    };
}
probe!(Probe, MProbe, 1);
probe!(Probe2, MProbe2, 2);

/// A member type with an INHERENT `update` (one draw) besides its trait impl (two draws): the hand-written sequence
/// `self.x.update(env, rng)` resolves to the inherent method, and so must the derived code.
pub struct Probe3 { tag: u32, log: Log }
impl Probe3 {
    pub fn new(log: &Log, next: &mut u32) -> Self { let tag = *next; *next += 1; Self { tag, log: log.clone() } }
    pub fn update<R: RngCore>(&mut self, env: &mut Env, rng: &mut R) {
        let d = rng.next_u64();
        self.log.borrow_mut().push((self.tag, d, env.get_orders().len()));
        draw32(self.tag, &self.log, env.get_orders().len(), rng);
        env.place_order(Side::Bid, 1, self.tag, Some(10)).unwrap();
    }
}
impl Agent for Probe3 {
    fn update<R: RngCore>(&mut self, env: &mut Env, rng: &mut R) {
        let _ = rng.next_u64();
        Probe3::update(self, env, rng);
    }
}
pub struct MProbe3 { tag: u32, log: Log }
impl MProbe3 {
    pub fn new(log: &Log, next: &mut u32) -> Self { let tag = *next; *next += 1; Self { tag, log: log.clone() } }
    pub fn update<R: RngCore, const M: usize, const N: usize>(&mut self, env: &mut MarketEnv<M, N>, rng: &mut R) {
        let d = rng.next_u64();
        self.log.borrow_mut().push((self.tag, d, env.get_orders(0).len()));
        draw32(self.tag, &self.log, env.get_orders(0).len(), rng);
        env.place_order(0, Side::Bid, 1, self.tag, Some(10)).unwrap();
    }
}
impl MarketAgent for MProbe3 {
    fn update<R: RngCore, const M: usize, const N: usize>(&mut self, env: &mut MarketEnv<M, N>, rng: &mut R) {
        let _ = rng.next_u64();
        MProbe3::update(self, env, rng);
    }
}

fn log_s(l: &Log) -> String {
    let v = l.borrow();
    if v.is_empty() { return "-".into(); }
    v.iter().map(|(t, d, n)| format!("{}:{}:{}", t, d, n)).collect::<Vec<_>>().join(",")
}

const STEPS: usize = 2;

pub fn run_agent_shape<S>(
    name: &str, style: &str, tree: &str, seed: u64,
    build: impl Fn(&Log, &mut u32) -> S,
    derived: impl Fn(&mut S, &mut Env, &mut Xoroshiro128StarStar),
    hand: impl Fn(&mut S, &mut Env, &mut Xoroshiro128StarStar),
    derived2: impl Fn(&mut S, &mut Env, &mut OddRng),
    hand2: impl Fn(&mut S, &mut Env, &mut OddRng),
) -> String {
    let run2 = |f: &dyn Fn(&mut S, &mut Env, &mut OddRng)| -> String {
        DRAW32.with(|c| c.set(true));
        let r = std::panic::catch_unwind(std::panic::AssertUnwindSafe(|| {
            let log: Log = Rc::new(RefCell::new(Vec::new()));
            let mut next = 0u32;
            let mut s = build(&log, &mut next);
            let mut env: Env = Env::new(0, 1, 100, true);
            let mut rng = OddRng(Xoroshiro128StarStar::seed_from_u64(seed));
            for _ in 0..STEPS {
                f(&mut s, &mut env, &mut rng);
                env.step(&mut rng);
            }
            format!("{:016x}/{}/{}", crate::sim::fnv64(&log_s(&log)), rng.next_u64(), env.get_orders().len())
        }));
        DRAW32.with(|c| c.set(false));
        r.unwrap_or_else(|_| "PANIC".into())
    };
    let run = |f: &dyn Fn(&mut S, &mut Env, &mut Xoroshiro128StarStar)| -> String {
        let r = std::panic::catch_unwind(std::panic::AssertUnwindSafe(|| {
            let log: Log = Rc::new(RefCell::new(Vec::new()));
            let mut next = 0u32;
            let mut s = build(&log, &mut next);
            let mut env: Env = Env::new(0, 1, 100, true);
            let mut rng = Xoroshiro128StarStar::seed_from_u64(seed);
            for _ in 0..STEPS {
                f(&mut s, &mut env, &mut rng);
                env.step(&mut rng);
            }
            format!("{}/{}", log_s(&log), env.get_orders().len())
        }));
        r.unwrap_or_else(|_| "PANIC".into())
    };
    format!("S {} macro=AgentSet style={} seed={} steps={} tree=[{}] derived={} hand={} derived2={} hand2={}", name, style, seed, STEPS, tree.replace(' ', "_"), run(&derived), run(&hand), run2(&derived2), run2(&hand2))
}

pub fn run_market_shape<S>(
    name: &str, style: &str, tree: &str, seed: u64,
    build: impl Fn(&Log, &mut u32) -> S,
    derived: impl Fn(&mut S, &mut MarketEnv<2, 3>, &mut Xoroshiro128StarStar),
    hand: impl Fn(&mut S, &mut MarketEnv<2, 3>, &mut Xoroshiro128StarStar),
    derived2: impl Fn(&mut S, &mut MarketEnv<2, 3>, &mut OddRng),
    hand2: impl Fn(&mut S, &mut MarketEnv<2, 3>, &mut OddRng),
) -> String {
    let run2 = |f: &dyn Fn(&mut S, &mut MarketEnv<2, 3>, &mut OddRng)| -> String {
        DRAW32.with(|c| c.set(true));
        let r = std::panic::catch_unwind(std::panic::AssertUnwindSafe(|| {
            let log: Log = Rc::new(RefCell::new(Vec::new()));
            let mut next = 0u32;
            let mut s = build(&log, &mut next);
            let mut env: MarketEnv<2, 3> = MarketEnv::new(0, [1, 1], 100, true);
            let mut rng = OddRng(Xoroshiro128StarStar::seed_from_u64(seed));
            for _ in 0..STEPS {
                f(&mut s, &mut env, &mut rng);
                env.step(&mut rng);
            }
            format!("{:016x}/{}/{}", crate::sim::fnv64(&log_s(&log)), rng.next_u64(), env.get_orders(0).len())
        }));
        DRAW32.with(|c| c.set(false));
        r.unwrap_or_else(|_| "PANIC".into())
    };
    let run = |f: &dyn Fn(&mut S, &mut MarketEnv<2, 3>, &mut Xoroshiro128StarStar)| -> String {
        let r = std::panic::catch_unwind(std::panic::AssertUnwindSafe(|| {
            let log: Log = Rc::new(RefCell::new(Vec::new()));
            let mut next = 0u32;
            let mut s = build(&log, &mut next);
            let mut env: MarketEnv<2, 3> = MarketEnv::new(0, [1, 1], 100, true);
            let mut rng = Xoroshiro128StarStar::seed_from_u64(seed);
            for _ in 0..STEPS {
                f(&mut s, &mut env, &mut rng);
                env.step(&mut rng);
            }
            format!("{}/{}", log_s(&log), env.get_orders(0).len())
        }));
        r.unwrap_or_else(|_| "PANIC".into())
    };
    format!("S {} macro=MarketAgentSet style={} seed={} steps={} tree=[{}] derived={} hand={} derived2={} hand2={}", name, style, seed, STEPS, tree.replace(' ', "_"), run(&derived), run(&hand), run2(&derived2), run2(&hand2))
}
