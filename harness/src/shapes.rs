//! Probe agents and the per-shape runner for the derive-macro check (C20).
//! A probe logs `(its tag, the next generator output(s), how many orders the environment holds)` and
//! submits one order, so both the shared generator and the shared environment show the call order.

use bourse_book::types::Side;
use bourse_de::agents::{Agent, MarketAgent};
use bourse_de::{Env, MarketEnv};
use rand::RngCore;
use rand_xoshiro::rand_core::SeedableRng;
use rand_xoshiro::Xoroshiro128StarStar;
use std::cell::RefCell;
use std::rc::Rc;

pub type Log = Rc<RefCell<Vec<(u32, u64, usize)>>>;

macro_rules! probe {
    ($name:ident, $mname:ident, $draws:expr) => {
        pub struct $name { tag: u32, log: Log }
        impl $name {
            pub fn new(log: &Log, next: &mut u32) -> Self { let tag = *next; *next += 1; Self { tag, log: log.clone() } }
        }
        impl Agent for $name {
            fn update<R: RngCore>(&mut self, env: &mut Env, rng: &mut R) {
                for _ in 0..$draws {
                    let d = rng.next_u64();
                    self.log.borrow_mut().push((self.tag, d, env.get_orders().len()));
                }
                env.place_order(Side::Bid, 1, self.tag, Some(10)).unwrap();
            }
        }
        pub struct $mname { tag: u32, log: Log }
        impl $mname {
            pub fn new(log: &Log, next: &mut u32) -> Self { let tag = *next; *next += 1; Self { tag, log: log.clone() } }
        }
        impl MarketAgent for $mname {
            fn update<R: RngCore, const M: usize, const N: usize>(&mut self, env: &mut MarketEnv<M, N>, rng: &mut R) {
                for _ in 0..$draws {
                    let d = rng.next_u64();
                    self.log.borrow_mut().push((self.tag, d, env.get_orders(0).len()));
                }
                env.place_order(0, Side::Bid, 1, self.tag, Some(10)).unwrap();
            }
        }
    };
}
probe!(Probe, MProbe, 1);
probe!(Probe2, MProbe2, 2);

/// A member type with an INHERENT `update` (one draw) besides its trait impl (two draws): the hand-written sequence
/// `self.x.update(env, rng)` resolves to the inherent method, and so must the derived code.
pub struct Probe3 { tag: u32, log: Log }
impl Probe3 {
    pub fn new(log: &Log, next: &mut u32) -> Self { let tag = *next; *next += 1; Self { tag, log: log.clone() } }
    pub fn update<R: RngCore>(&mut self, env: &mut Env, rng: &mut R) {
        let d = rng.next_u64();
        self.log.borrow_mut().push((self.tag, d, env.get_orders().len()));
        env.place_order(Side::Bid, 1, self.tag, Some(10)).unwrap();
    }
}
impl Agent for Probe3 {
    fn update<R: RngCore>(&mut self, env: &mut Env, rng: &mut R) {
        let _ = rng.next_u64();
        Probe3::update(self, env, rng);
    }
}
pub struct MProbe3 { tag: u32, log: Log }
impl MProbe3 {
    pub fn new(log: &Log, next: &mut u32) -> Self { let tag = *next; *next += 1; Self { tag, log: log.clone() } }
    pub fn update<R: RngCore, const M: usize, const N: usize>(&mut self, env: &mut MarketEnv<M, N>, rng: &mut R) {
        let d = rng.next_u64();
        self.log.borrow_mut().push((self.tag, d, env.get_orders(0).len()));
        env.place_order(0, Side::Bid, 1, self.tag, Some(10)).unwrap();
    }
}
impl MarketAgent for MProbe3 {
    fn update<R: RngCore, const M: usize, const N: usize>(&mut self, env: &mut MarketEnv<M, N>, rng: &mut R) {
        let _ = rng.next_u64();
        MProbe3::update(self, env, rng);
    }
}

fn log_s(l: &Log) -> String {
    let v = l.borrow();
    if v.is_empty() { return "-".into(); }
    v.iter().map(|(t, d, n)| format!("{}:{}:{}", t, d, n)).collect::<Vec<_>>().join(",")
}

const STEPS: usize = 2;

pub fn run_agent_shape<S>(
    name: &str, style: &str, tree: &str, seed: u64,
    build: impl Fn(&Log, &mut u32) -> S,
    derived: impl Fn(&mut S, &mut Env, &mut Xoroshiro128StarStar),
    hand: impl Fn(&mut S, &mut Env, &mut Xoroshiro128StarStar),
) -> String {
    let run = |f: &dyn Fn(&mut S, &mut Env, &mut Xoroshiro128StarStar)| -> String {
        let r = std::panic::catch_unwind(std::panic::AssertUnwindSafe(|| {
            let log: Log = Rc::new(RefCell::new(Vec::new()));
            let mut next = 0u32;
            let mut s = build(&log, &mut next);
            let mut env: Env = Env::new(0, 1, 100, true);
            let mut rng = Xoroshiro128StarStar::seed_from_u64(seed);
            for _ in 0..STEPS {
                f(&mut s, &mut env, &mut rng);
                env.step(&mut rng);
            }
            format!("{}/{}", log_s(&log), env.get_orders().len())
        }));
        r.unwrap_or_else(|_| "PANIC".into())
    };
    format!("S {} macro=AgentSet style={} seed={} steps={} tree=[{}] derived={} hand={}", name, style, seed, STEPS, tree.replace(' ', "_"), run(&derived), run(&hand))
}

pub fn run_market_shape<S>(
    name: &str, style: &str, tree: &str, seed: u64,
    build: impl Fn(&Log, &mut u32) -> S,
    derived: impl Fn(&mut S, &mut MarketEnv<2, 3>, &mut Xoroshiro128StarStar),
    hand: impl Fn(&mut S, &mut MarketEnv<2, 3>, &mut Xoroshiro128StarStar),
) -> String {
    let run = |f: &dyn Fn(&mut S, &mut MarketEnv<2, 3>, &mut Xoroshiro128StarStar)| -> String {
        let r = std::panic::catch_unwind(std::panic::AssertUnwindSafe(|| {
            let log: Log = Rc::new(RefCell::new(Vec::new()));
            let mut next = 0u32;
            let mut s = build(&log, &mut next);
            let mut env: MarketEnv<2, 3> = MarketEnv::new(0, [1, 1], 100, true);
            let mut rng = Xoroshiro128StarStar::seed_from_u64(seed);
            for _ in 0..STEPS {
                f(&mut s, &mut env, &mut rng);
                env.step(&mut rng);
            }
            format!("{}/{}", log_s(&log), env.get_orders(0).len())
        }));
        r.unwrap_or_else(|_| "PANIC".into())
    };
    format!("S {} macro=MarketAgentSet style={} seed={} steps={} tree=[{}] derived={} hand={}", name, style, seed, STEPS, tree.replace(' ', "_"), run(&derived), run(&hand))
}
