//! Seeded generators of book-level histories. Every random choice derives from one
//! `Xoroshiro128StarStar` so a history replays exactly from (seed, index).
//!
//! Profiles
//!   disciplined  clock strictly advanced before anything that may enqueue (scope of C01–C04, C06, C07, C12, C13)
//!   ties         clock advance skipped with probability 1/2, same-price bursts (C05)
//!   toggle       trading switched at random points, crossing placements/modifications while off (C13, C02)
//!   modify       modify-heavy: the full request grid on orders in every status (C06)
//!   redundant    repeated place/cancel/modify on every status, clock changes (C04)
//!   reload       snapshot/reload at random points, lock-step continuation (C07)
//!   mixed        everything at once: toggles, reloads, the modify grid, redundant requests, disciplined clock
//!   wide         prices and volumes near the 2^32 bounds, big tick sizes
//!   malformed    off-grid creations and off-grid modify prices (C12)
//!   edge         as malformed, on a window of grid prices at the very bottom (0, tick, ..) or the very
//!                top (.., floor(MAX/tick)*tick) of the price range (C12: "arbitrary prices")
//!   unusual      legal but unusual requests: zero volumes (orders, market orders, modifications to volume 0), the
//!                clock moved backwards, price windows at the very ends of the range (the sentinel prices 0 and
//!                MAX as resting prices), trading switches; same-time bursts
//!   invalid      unknown ids, zero volumes, clock moved back: only to compare faults with panics

use crate::bookdrive::Live;
use crate::proto::{BookHeader, Ev, Op};
use bourse_book::types::Status;
use rand::Rng;
use rand_xoshiro::Xoroshiro128StarStar;
use std::io::Write;

pub struct Gen {
    pub rng: Xoroshiro128StarStar,
    pub profile: String,
    pub tick: u32,
    pub base: u32,     // lowest grid index used
    pub n_prices: u32, // number of grid prices used
    pub vols: Vec<u32>,
    pub t: u64,
    pub trading: bool,
}

impl Gen {
    fn price(&mut self) -> u32 {
        let k = self.rng.gen_range(0..self.n_prices);
        (self.base + k) * self.tick
    }
    fn vol(&mut self) -> u32 {
        let i = self.rng.gen_range(0..self.vols.len());
        self.vols[i]
    }
    fn chance(&mut self, p: f64) -> bool {
        self.rng.gen::<f64>() < p
    }

    fn pick_id<const L: usize>(&mut self, live: &Live<L>, want: Option<Status>) -> Option<usize> {
        let n = live.n_orders();
        if n == 0 {
            return None;
        }
        if let Some(w) = want {
            // a few random probes, then a scan
            for _ in 0..4 {
                let i = self.rng.gen_range(0..n);
                if live.status(i) == w {
                    return Some(i);
                }
            }
            let start = self.rng.gen_range(0..n);
            for k in 0..n {
                let i = (start + k) % n;
                if live.status(i) == w {
                    return Some(i);
                }
            }
            None
        } else {
            Some(self.rng.gen_range(0..n))
        }
    }

    fn modify_args<const L: usize>(&mut self, live: &Live<L>, id: usize) -> (Option<u32>, Option<u32>) {
        let cur = live.book.order(id).vol;
        let p = if self.chance(0.5) {
            None
        } else if (self.profile == "malformed" || self.profile == "edge") && self.tick > 1 && self.chance(0.5) {
            let r = self.rng.gen_range(1..self.tick);
            Some(self.price().saturating_add(r))
        } else {
            Some(self.price())
        };
        let v = match self.rng.gen_range(0..5) {
            0 => None,
            1 => {
                if cur > 1 {
                    Some(self.rng.gen_range(1..cur))
                } else {
                    Some(1)
                }
            }
            2 => Some(cur.max(1)),
            3 => Some(cur.saturating_add(self.vol()).max(1)),
            _ => None,
        };
        let v = if (self.profile == "unusual" && self.chance(0.2)) || (self.profile == "py" && self.chance(0.08)) { Some(0) } else { v };
        (p, v)
    }

    /// Next batch of operations (a possible clock advance followed by one operation).
    pub fn next_ops<const L: usize>(&mut self, live: &Live<L>) -> Vec<Op> {
        let mut ops = Vec::new();
        let prof = self.profile.clone();
        let tie_p = match prof.as_str() {
            "ties" => 0.5,
            _ => 0.0,
        };
        // weights
        let (w_cap, w_mkt, w_create, w_place, w_cancel, w_modify, w_toggle, w_reset, w_reload, w_red, w_time) =
            match prof.as_str() {
                "modify" => (30, 6, 4, 4, 6, 45, 0, 1, 0, 4, 0),
                "toggle" => (35, 10, 5, 5, 8, 17, 12, 1, 0, 5, 2),
                "redundant" => (22, 6, 8, 8, 8, 10, 3, 1, 0, 28, 6),
                "reload" => (35, 8, 5, 5, 10, 18, 3, 1, 12, 3, 0),
                "mixed" => (30, 8, 6, 6, 10, 20, 6, 1, 5, 6, 3),
                "unusual" => (30, 8, 6, 6, 10, 22, 5, 1, 3, 6, 8),
                "wide" => (40, 8, 6, 6, 12, 20, 0, 1, 3, 4, 3),
                "malformed" | "edge" => (40, 5, 10, 5, 8, 25, 2, 1, 2, 4, 0),
                "ties" => (42, 8, 5, 5, 10, 22, 2, 1, 2, 3, 0),
                "py" => (45, 10, 0, 0, 12, 24, 4, 0, 4, 0, 3),
                _ => (40, 8, 6, 6, 12, 20, 0, 1, 0, 4, 3),
            };
        let total = w_cap + w_mkt + w_create + w_place + w_cancel + w_modify + w_toggle + w_reset + w_reload + w_red + w_time;
        let mut r = self.rng.gen_range(0..total);
        let mut pick = |w: u32| -> bool {
            if r < w {
                r = u32::MAX;
                true
            } else {
                if r != u32::MAX {
                    r -= w;
                }
                false
            }
        };
        let tie_p = if prof == "unusual" { 0.3 } else { tie_p };
        let advance = |g: &mut Gen, ops: &mut Vec<Op>| {
            if g.profile == "unusual" && g.chance(0.15) {
                // a legal move of the clock backwards
                g.t = g.t.saturating_sub(g.rng.gen_range(1..6));
                ops.push(Op::Time(g.t));
            } else if !g.chance(tie_p) {
                g.t = g.t.saturating_add(g.rng.gen_range(1..4));
                ops.push(Op::Time(g.t));
            }
        };
        let offgrid = prof == "malformed" || prof == "py" || prof == "edge";
        if pick(w_cap) {
            advance(self, &mut ops);
            let s = self.chance(0.5);
            let mut p = self.price();
            if offgrid && self.tick > 1 && self.chance(0.4) {
                p = p.saturating_add(self.rng.gen_range(1..self.tick));
            }
            let v = self.vol();
            let tr = self.rng.gen_range(0..5);
            ops.push(Op::Cap(s, v, tr, Some(p)));
        } else if pick(w_mkt) {
            // a market order never queues, so the clock discipline says nothing about its timestamp: now and then it
            // arrives at the very time of the previous operation
            if prof == "ties" || !self.chance(0.35) {
                advance(self, &mut ops);
            }
            let s = self.chance(0.5);
            let v = self.vol();
            let tr = self.rng.gen_range(0..5);
            ops.push(Op::Cap(s, v, tr, None));
        } else if pick(w_create) {
            let s = self.chance(0.5);
            let mut p = self.price();
            if offgrid && self.tick > 1 && self.chance(0.4) {
                p = p.saturating_add(self.rng.gen_range(1..self.tick));
            }
            let v = self.vol();
            let tr = self.rng.gen_range(0..5);
            let price = if self.chance(0.15) { None } else { Some(p) };
            ops.push(Op::Create(s, v, tr, price));
        } else if pick(w_place) {
            if let Some(i) = self.pick_id(live, Some(Status::New)) {
                advance(self, &mut ops);
                if self.chance(0.5) {
                    ops.push(Op::Place(i));
                } else {
                    ops.push(Op::Ev(Ev::New(i)));
                }
            }
        } else if pick(w_cancel) {
            if let Some(i) = self.pick_id(live, Some(Status::Active)) {
                if self.chance(0.5) {
                    advance(self, &mut ops);
                }
                if prof == "py" || self.chance(0.5) {
                    ops.push(Op::Cancel(i));
                } else {
                    ops.push(Op::Ev(Ev::Cancel(i)));
                }
            }
        } else if pick(w_modify) {
            if let Some(i) = self.pick_id(live, Some(Status::Active)) {
                advance(self, &mut ops);
                let (p, v) = self.modify_args(live, i);
                if prof == "py" || self.chance(0.5) {
                    ops.push(Op::Modify(i, p, v));
                } else {
                    ops.push(Op::Ev(Ev::Modify(i, p, v)));
                }
            }
        } else if pick(w_toggle) {
            self.trading = !self.trading;
            ops.push(Op::Trading(self.trading));
            if self.chance(0.2) {
                // the same request again: redundant, must change nothing
                ops.push(Op::Trading(self.trading));
            }
        } else if pick(w_reset) {
            ops.push(Op::ResetVol);
        } else if pick(w_reload) {
            let m = if prof == "py" { ["compact", "pretty"][self.rng.gen_range(0..2)] } else { ["mem", "compact", "pretty"][self.rng.gen_range(0..3)] };
            ops.push(Op::Reload(m.to_string()));
        } else if pick(w_red) {
            // a redundant request on an order in an arbitrary status
            if let Some(i) = self.pick_id(live, None) {
                // the request is not always redundant (the order may be New/Active): keep the discipline
                advance(self, &mut ops);
                match self.rng.gen_range(0..6) {
                    0 => ops.push(Op::Place(i)),
                    1 => ops.push(Op::Ev(Ev::New(i))),
                    2 => ops.push(Op::Cancel(i)),
                    3 => ops.push(Op::Ev(Ev::Cancel(i))),
                    4 => {
                        let (p, v) = self.modify_args(live, i);
                        ops.push(Op::Modify(i, p, v))
                    }
                    _ => {
                        let (p, v) = self.modify_args(live, i);
                        ops.push(Op::Ev(Ev::Modify(i, p, v)))
                    }
                }
            }
        } else if pick(w_time) {
            if (prof == "unusual" || prof == "py") && self.chance(0.5) { self.t = self.t.saturating_sub(self.rng.gen_range(0..8)); }
            else { self.t = self.t.saturating_add(self.rng.gen_range(0..5)); }
            ops.push(Op::Time(self.t));
        }
        ops
    }

    /// Final probes: market orders for the whole opposite volume reveal the full queue order.
    pub fn drain_ops<const L: usize>(&mut self, live: &Live<L>) -> Vec<Op> {
        let mut ops = Vec::new();
        if !self.trading {
            if self.chance(0.5) {
                return ops;
            }
            self.trading = true;
            ops.push(Op::Trading(true));
        }
        self.t = self.t.saturating_add(1);
        ops.push(Op::Time(self.t));
        let av = live.book.ask_vol();
        let bv = live.book.bid_vol();
        if av > 0 {
            ops.push(Op::Cap(true, av, 9, None));
        }
        self.t = self.t.saturating_add(1);
        ops.push(Op::Time(self.t));
        if bv > 0 {
            ops.push(Op::Cap(false, bv, 9, None));
        }
        ops
    }
}

/// Generate and run one history of about `n_ops` operations.
pub fn gen_and_run<const L: usize, W: Write>(
    h: &BookHeader,
    g: &mut Gen,
    n_ops: usize,
    scratch: std::path::PathBuf,
    w: &mut W,
) {
    let _ = gen_and_run_keep::<L, W>(h, g, n_ops, scratch, w);
}

/// As `gen_and_run`, returning the live book at the end of the history.
pub fn gen_and_run_keep<const L: usize, W: Write>(
    h: &BookHeader,
    g: &mut Gen,
    n_ops: usize,
    scratch: std::path::PathBuf,
    w: &mut W,
) -> Live<L> {
    writeln!(w, "{}", h.line()).unwrap();
    let mut live = Live::<L>::new(h, scratch).expect("valid header");
    writeln!(w, "I {}", live.initial()).unwrap();
    let mut count = 0;
    let mut guard = 0;
    // Stamp jump (one history in five of the profiles below): at some point the book goes through its snapshot with
    // 2^32 - r (or 2^33 - r, 2^48 - r, 2^63 - r; r = 0..5) added to every queue stamp, so that the following
    // insertions straddle a power-of-two boundary of the counter. The decision is derived from the history id, not
    // from the generator, so the histories themselves are the ones generated without it.
    let mut jump: Option<(usize, u64)> = None;
    if matches!(h.profile.as_str(), "disciplined" | "ties" | "modify" | "wide" | "mixed" | "toggle" | "reload" | "redundant") {
        let mut x: u64 = 0xcbf29ce484222325;
        for b in h.id.bytes() {
            x = (x ^ b as u64).wrapping_mul(0x100000001b3);
        }
        x ^= x >> 29;
        if x % 5 == 0 {
            let base: u64 = [1u64 << 32, 1 << 32, 1 << 32, 1 << 33, 1 << 48, 1 << 63][((x >> 8) % 6) as usize];
            let at = if (x >> 16) % 2 == 0 { 0 } else { ((x >> 20) as usize) % n_ops.max(1) };
            jump = Some((at, base - (x >> 40) % 6));
        }
    }
    while count < n_ops && guard < n_ops * 8 {
        guard += 1;
        let mut ops = g.next_ops(&live);
        if let Some((at, k)) = jump {
            if count >= at {
                ops.insert(0, Op::Jump(k));
                jump = None;
            }
        }
        for op in ops {
            writeln!(w, "O {}", op.line()).unwrap();
            let i = live.step(&op);
            writeln!(w, "I {}", i).unwrap();
            count += 1;
            if live.dead {
                return live;
            }
        }
    }
    if h.profile != "malformed" {
        // drain in two rounds: the second sees what the first left
        for _ in 0..2 {
            let ops = g.drain_ops(&live);
            for op in ops {
                writeln!(w, "O {}", op.line()).unwrap();
                let i = live.step(&op);
                writeln!(w, "I {}", i).unwrap();
                if live.dead {
                    return live;
                }
            }
        }
    }
    live
}
