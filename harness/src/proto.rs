//! Line protocol: operations and their text form (shared with the Lean driver).

use bourse_book::types::{Event, Side};

#[derive(Clone, Debug, PartialEq)]
pub enum Ev {
    New(usize),
    Cancel(usize),
    Modify(usize, Option<u32>, Option<u32>),
}

impl Ev {
    pub fn to_event(&self) -> Event<usize> {
        match *self {
            Ev::New(i) => Event::New { order_id: i },
            Ev::Cancel(i) => Event::Cancellation { order_id: i },
            Ev::Modify(i, p, v) => Event::Modify {
                order_id: i,
                new_price: p,
                new_vol: v,
            },
        }
    }
}

#[derive(Clone, Debug, PartialEq)]
pub enum Op {
    Create(bool, u32, u32, Option<u32>), // is_bid, vol, trader, price
    Place(usize),
    Cap(bool, u32, u32, Option<u32>),
    Cancel(usize),
    Modify(usize, Option<u32>, Option<u32>),
    Ev(Ev),
    Time(u64),
    Trading(bool),
    ResetVol,
    Reload(String),
    /// Stamp jump: the book goes through its snapshot with `k` added to the queue-stamp counter and to
    /// the stamp of every stored key (the state `k` queue insertions that have since left the book would
    /// have produced). Nothing observable may change.
    Jump(u64),
}

pub fn side_of(is_bid: bool) -> Side {
    if is_bid {
        Side::Bid
    } else {
        Side::Ask
    }
}

fn sd(b: bool) -> &'static str {
    if b {
        "b"
    } else {
        "a"
    }
}

pub fn opt<T: std::fmt::Display>(x: &Option<T>) -> String {
    match x {
        Some(v) => v.to_string(),
        None => "-".to_string(),
    }
}

impl Op {
    pub fn line(&self) -> String {
        match self {
            Op::Create(s, v, t, p) => format!("create {} {} {} {}", sd(*s), v, t, opt(p)),
            Op::Cap(s, v, t, p) => format!("cap {} {} {} {}", sd(*s), v, t, opt(p)),
            Op::Place(i) => format!("place {}", i),
            Op::Cancel(i) => format!("cancel {}", i),
            Op::Modify(i, p, v) => format!("modify {} {} {}", i, opt(p), opt(v)),
            Op::Ev(Ev::New(i)) => format!("ev new {}", i),
            Op::Ev(Ev::Cancel(i)) => format!("ev cancel {}", i),
            Op::Ev(Ev::Modify(i, p, v)) => format!("ev modify {} {} {}", i, opt(p), opt(v)),
            Op::Time(t) => format!("time {}", t),
            Op::Trading(b) => format!("trading {}", if *b { 1 } else { 0 }),
            Op::ResetVol => "resetvol".to_string(),
            Op::Reload(m) => format!("reload {}", m),
            Op::Jump(k) => format!("jump {}", k),
        }
    }

    pub fn parse(toks: &[&str]) -> Option<Op> {
        fn on<T: std::str::FromStr>(s: &str) -> Option<Option<T>> {
            if s == "-" {
                Some(None)
            } else {
                s.parse().ok().map(Some)
            }
        }
        fn side(s: &str) -> Option<bool> {
            match s {
                "b" => Some(true),
                "a" => Some(false),
                _ => None,
            }
        }
        match toks {
            ["create", s, v, t, p] => Some(Op::Create(
                side(s)?,
                v.parse().ok()?,
                t.parse().ok()?,
                on(p)?,
            )),
            ["cap", s, v, t, p] => {
                Some(Op::Cap(side(s)?, v.parse().ok()?, t.parse().ok()?, on(p)?))
            }
            ["place", i] => Some(Op::Place(i.parse().ok()?)),
            ["cancel", i] => Some(Op::Cancel(i.parse().ok()?)),
            ["modify", i, p, v] => Some(Op::Modify(i.parse().ok()?, on(p)?, on(v)?)),
            ["ev", "new", i] => Some(Op::Ev(Ev::New(i.parse().ok()?))),
            ["ev", "cancel", i] => Some(Op::Ev(Ev::Cancel(i.parse().ok()?))),
            ["ev", "modify", i, p, v] => {
                Some(Op::Ev(Ev::Modify(i.parse().ok()?, on(p)?, on(v)?)))
            }
            ["time", t] => Some(Op::Time(t.parse().ok()?)),
            ["trading", b] => Some(Op::Trading(*b == "1")),
            ["resetvol"] => Some(Op::ResetVol),
            ["reload", m] => Some(Op::Reload(m.to_string())),
            ["jump", k] => Some(Op::Jump(k.parse().ok()?)),
            _ => None,
        }
    }
}

/// Header of a book-level history.
#[derive(Clone, Debug)]
pub struct BookHeader {
    pub id: String,
    pub profile: String,
    pub t0: u64,
    pub tick: u32,
    pub trading: bool,
    pub levels: usize,
}

impl BookHeader {
    pub fn line(&self) -> String {
        format!(
            "H {} {} book {} {} {} {}",
            self.id,
            self.profile,
            self.t0,
            self.tick,
            if self.trading { 1 } else { 0 },
            self.levels
        )
    }
    pub fn parse(toks: &[&str]) -> Option<BookHeader> {
        match toks {
            ["H", id, profile, "book", t0, tick, trading, l] => Some(BookHeader {
                id: id.to_string(),
                profile: profile.to_string(),
                t0: t0.parse().ok()?,
                tick: tick.parse().ok()?,
                trading: *trading == "1",
                levels: l.parse().ok()?,
            }),
            _ => None,
        }
    }
}
