//! `drive` — runs the REAL bourse code on operation streams and prints canonical observations.
//!
//!   drive book-gen --profile P --seed S --hists N --ops M [--levels 1,3,10] [--ticks 1,2,5] [--prices K]
//!   drive book-replay FILE          (FILE holds `H` and `O` lines; `I` lines are ignored)

use bourse_verif_harness::bookdrive::run_fixed;
use bourse_verif_harness::gen::{gen_and_run, Gen};
use bourse_verif_harness::proto::{BookHeader, Op};
use rand::Rng;
use rand_xoshiro::rand_core::SeedableRng;
use rand_xoshiro::Xoroshiro128StarStar;
use std::collections::HashMap;
use std::io::{BufRead, BufWriter, Write};

macro_rules! with_levels {
    ($l:expr, $f:ident, $($args:expr),*) => {
        match $l {
            1 => $f::<1, _>($($args),*),
            2 => $f::<2, _>($($args),*),
            3 => $f::<3, _>($($args),*),
            5 => $f::<5, _>($($args),*),
            10 => $f::<10, _>($($args),*),
            24 => $f::<24, _>($($args),*),
            other => panic!("unsupported level count {}", other),
        }
    };
}

fn args_map(args: &[String]) -> HashMap<String, String> {
    let mut m = HashMap::new();
    let mut i = 0;
    while i < args.len() {
        if let Some(k) = args[i].strip_prefix("--") {
            if i + 1 < args.len() {
                m.insert(k.to_string(), args[i + 1].clone());
                i += 2;
                continue;
            }
        }
        i += 1;
    }
    m
}

fn list<T: std::str::FromStr>(s: &str) -> Vec<T> {
    s.split(',').filter_map(|x| x.parse().ok()).collect()
}

fn scratch_dir() -> std::path::PathBuf {
    let base = std::env::var("VERIF_SCRATCH").unwrap_or_else(|_| "/verif/.build/scratch".into());
    std::path::PathBuf::from(base).join(format!("p{}", std::process::id()))
}

fn book_gen(m: &HashMap<String, String>) {
    let profile = m.get("profile").cloned().unwrap_or_else(|| "disciplined".into());
    let seed: u64 = m.get("seed").and_then(|s| s.parse().ok()).unwrap_or(1);
    let hists: usize = m.get("hists").and_then(|s| s.parse().ok()).unwrap_or(10);
    let n_ops: usize = m.get("ops").and_then(|s| s.parse().ok()).unwrap_or(60);
    let levels: Vec<usize> = m.get("levels").map(|s| list(s)).unwrap_or_else(|| vec![3]);
    let ticks: Vec<u32> = m
        .get("ticks")
        .map(|s| list(s))
        .unwrap_or_else(|| vec![1, 2, 3, 4, 5, 6, 7, 8, 9, 10]);
    let n_prices: u32 = m.get("prices").and_then(|s| s.parse().ok()).unwrap_or(4);
    let out = std::io::stdout();
    let mut w = BufWriter::with_capacity(1 << 20, out.lock());
    let scratch = scratch_dir();
    for hi in 0..hists {
        let mut rng = Xoroshiro128StarStar::seed_from_u64(seed.wrapping_mul(0x9E3779B97F4A7C15).wrapping_add(hi as u64));
        let l = levels[rng.gen_range(0..levels.len())];
        let wide = profile == "wide";
        let tick = if wide {
            [1u32, 7, 1000, 65536, 1 << 20][rng.gen_range(0..5)]
        } else {
            ticks[rng.gen_range(0..ticks.len())]
        };
        let trading = if profile == "toggle" { rng.gen::<f64>() < 0.7 } else { true };
        let t0: u64 = if wide { 1 << 40 } else { rng.gen_range(0..100) };
        let np = if rng.gen::<f64>() < 0.3 { n_prices + 3 } else { n_prices };
        let base = if wide {
            // a window of grid prices just below 2^32 - 1 (strictly inside (0, MAX))
            let top = (u32::MAX - 1) / tick;
            if rng.gen::<f64>() < 0.5 { top - np } else { 1 }
        } else {
            rng.gen_range(1..20)
        };
        let vols = if wide {
            vec![1, 3, 1 << 16, (1 << 22) + 1, 1 << 23]
        } else if rng.gen::<f64>() < 0.5 {
            vec![1, 2, 3]
        } else {
            vec![1, 2, 5, 10]
        };
        let h = BookHeader {
            id: format!("{}-{}-{}", profile, seed, hi),
            profile: profile.clone(),
            t0,
            tick,
            trading,
            levels: l,
        };
        let mut g = Gen {
            rng,
            profile: profile.clone(),
            tick,
            base,
            n_prices: np,
            vols,
            t: t0,
            trading,
        };
        with_levels!(l, gen_and_run, &h, &mut g, n_ops, scratch.clone(), &mut w);
    }
    w.flush().unwrap();
    let _ = std::fs::remove_dir_all(&scratch);
}

fn book_replay(path: &str) {
    let f = std::fs::File::open(path).expect("open replay file");
    let rd = std::io::BufReader::new(f);
    let out = std::io::stdout();
    let mut w = BufWriter::with_capacity(1 << 20, out.lock());
    let scratch = scratch_dir();
    let mut cur: Option<(BookHeader, Vec<Op>)> = None;
    let flush = |cur: &mut Option<(BookHeader, Vec<Op>)>, w: &mut BufWriter<std::io::StdoutLock>| {
        if let Some((h, ops)) = cur.take() {
            let l = h.levels;
            with_levels!(l, run_fixed, &h, &ops, scratch.clone(), w);
        }
    };
    for line in rd.lines() {
        let line = line.unwrap();
        let toks: Vec<&str> = line.split_whitespace().collect();
        if toks.is_empty() {
            continue;
        }
        match toks[0] {
            "H" => {
                flush(&mut cur, &mut w);
                match BookHeader::parse(&toks) {
                    Some(h) => cur = Some((h, Vec::new())),
                    None => eprintln!("bad header: {}", line),
                }
            }
            "O" => {
                if let (Some((_, ops)), Some(op)) = (cur.as_mut(), Op::parse(&toks[1..])) {
                    ops.push(op);
                } else {
                    eprintln!("bad op: {}", line);
                }
            }
            _ => {}
        }
    }
    flush(&mut cur, &mut w);
    w.flush().unwrap();
    let _ = std::fs::remove_dir_all(&scratch);
}

fn main() {
    std::panic::set_hook(Box::new(|_| {}));
    let args: Vec<String> = std::env::args().collect();
    if args.len() < 2 {
        eprintln!("usage: drive <book-gen|book-replay> ...");
        std::process::exit(2);
    }
    let m = args_map(&args[2..]);
    match args[1].as_str() {
        "book-gen" => book_gen(&m),
        "book-replay" => book_replay(&args[2]),
        other => {
            eprintln!("unknown subcommand {}", other);
            std::process::exit(2);
        }
    }
}
