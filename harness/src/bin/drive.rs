//! `drive` — runs the REAL bourse code on operation streams and prints canonical observations.
//!
//!   drive book-gen --profile P --seed S --hists N --ops M [--levels 1,3,10] [--ticks 1,2,5] [--prices K]
//!   drive book-replay FILE          (FILE holds `H` and `O` lines; `I` lines are ignored)

use bourse_verif_harness::bookdrive::run_fixed;
use bourse_verif_harness::gen::{gen_and_run, Gen};
use bourse_verif_harness::proto::{BookHeader, Op};
use bourse_verif_harness::envdrive::*;
use bourse_de::{Env, MarketEnv};
use rand::Rng;
use rand_xoshiro::rand_core::SeedableRng;
use rand_xoshiro::Xoroshiro128StarStar;
use std::collections::HashMap;
use std::io::{BufRead, BufWriter, Write};

macro_rules! with_levels {
    ($l:expr, $f:ident, $($args:expr),*) => {
        match $l {
            1 => $f::<1, _>($($args),*),
            2 => $f::<2, _>($($args),*),
            3 => $f::<3, _>($($args),*),
            5 => $f::<5, _>($($args),*),
            10 => $f::<10, _>($($args),*),
            24 => $f::<24, _>($($args),*),
            other => panic!("unsupported level count {}", other),
        }
    };
}

fn args_map(args: &[String]) -> HashMap<String, String> {
    let mut m = HashMap::new();
    let mut i = 0;
    while i < args.len() {
        if let Some(k) = args[i].strip_prefix("--") {
            if i + 1 < args.len() {
                m.insert(k.to_string(), args[i + 1].clone());
                i += 2;
                continue;
            }
        }
        i += 1;
    }
    m
}

fn list<T: std::str::FromStr>(s: &str) -> Vec<T> {
    s.split(',').filter_map(|x| x.parse().ok()).collect()
}

fn scratch_dir() -> std::path::PathBuf {
    let base = std::env::var("VERIF_SCRATCH").unwrap_or_else(|_| "/verif/.build/scratch".into());
    std::path::PathBuf::from(base).join(format!("p{}", std::process::id()))
}

fn book_gen(m: &HashMap<String, String>) {
    let profile = m.get("profile").cloned().unwrap_or_else(|| "disciplined".into());
    let seed: u64 = m.get("seed").and_then(|s| s.parse().ok()).unwrap_or(1);
    let hists: usize = m.get("hists").and_then(|s| s.parse().ok()).unwrap_or(10);
    let n_ops: usize = m.get("ops").and_then(|s| s.parse().ok()).unwrap_or(60);
    let levels: Vec<usize> = m.get("levels").map(|s| list(s)).unwrap_or_else(|| vec![3]);
    let ticks: Vec<u32> = m
        .get("ticks")
        .map(|s| list(s))
        .unwrap_or_else(|| vec![1, 2, 3, 4, 5, 6, 7, 8, 9, 10]);
    let n_prices: u32 = m.get("prices").and_then(|s| s.parse().ok()).unwrap_or(4);
    let out = std::io::stdout();
    let mut w = BufWriter::with_capacity(1 << 20, out.lock());
    let scratch = scratch_dir();
    for hi in 0..hists {
        let mut rng = Xoroshiro128StarStar::seed_from_u64(seed.wrapping_mul(0x9E3779B97F4A7C15).wrapping_add(hi as u64));
        let l = levels[rng.gen_range(0..levels.len())];
        let wide = profile == "wide";
        let tick = if wide {
            [1u32, 2, 7, 10, 1000, 65536, 1 << 20][rng.gen_range(0..7)]
        } else {
            ticks[rng.gen_range(0..ticks.len())]
        };
        let unusual = profile == "unusual";
        let trading = if profile == "toggle" || profile == "mixed" || unusual { rng.gen::<f64>() < 0.7 } else { true };
        // `wide`: a third of the histories start so close to the end of time that the clock reaches
        // u64::MAX (a legal forward move) in mid-history and stays there
        // (`toggle` / `mixed`: one history in ten starts just below the end of time too - disabled periods at clock value u64::MAX)
        let t0: u64 = if wide { if rng.gen_range(0..3) == 0 { u64::MAX - rng.gen_range(0..80u64) } else { 1 << 40 } }
                      else if (profile == "toggle" || profile == "mixed") && hi % 10 == 7 { u64::MAX - (hi as u64 % 40) }
                      else { rng.gen_range(0..100) };
        let np = if rng.gen::<f64>() < 0.3 { n_prices + 3 } else { n_prices };
        let edge = profile == "edge" || (unusual && rng.gen::<f64>() < 0.4);
        let base = if edge {
            // grid prices at the very ends of the price range: 0, tick, .. or .., floor(MAX/tick)*tick
            if rng.gen::<f64>() < 0.5 { 0 } else { u32::MAX / tick - (np - 1) }
        } else if wide {
            // a window of grid prices just below 2^32 - 1 (strictly inside (0, MAX))
            let top = (u32::MAX - 1) / tick;
            // (the window ends AT the topmost grid price below 2^32 - 1)
            if rng.gen::<f64>() < 0.5 { top - np + 1 } else { 1 }
        } else {
            rng.gen_range(1..20)
        };
        let vols = if unusual || (profile == "py" && rng.gen::<f64>() < 0.3) {
            vec![0, 0, 1, 2, 3, 5]
        } else if wide {
            vec![1, 3, 1 << 16, (1 << 22) + 1, 1 << 23]
        } else if rng.gen::<f64>() < 0.5 {
            vec![1, 2, 3]
        } else {
            vec![1, 2, 5, 10]
        };
        let h = BookHeader {
            id: format!("{}-{}-{}", profile, seed, hi),
            profile: profile.clone(),
            t0,
            tick,
            trading,
            levels: l,
        };
        let mut g = Gen {
            rng,
            profile: profile.clone(),
            tick,
            base,
            n_prices: np,
            vols,
            t: t0,
            trading,
        };
        with_levels!(l, gen_and_run, &h, &mut g, n_ops, scratch.clone(), &mut w);
    }
    w.flush().unwrap();
    let _ = std::fs::remove_dir_all(&scratch);
}


/// book-enum --depth D [--tick T] [--ties 0|1] [--toggle 0|1] [--shard i/n]
/// Bounded-exhaustive histories: EVERY operation sequence of length D over a small alphabet
/// (limit orders at two prices x two volumes on both sides, market orders of two sizes, cancel and
/// the full modify grid on every order created so far, optionally the trading switch), each
/// followed by drain probes. With `--ties 1` the clock is never advanced.
fn book_enum(m: &HashMap<String, String>) {
    use bourse_verif_harness::bookdrive::run_fixed;
    let depth: usize = m.get("depth").and_then(|s| s.parse().ok()).unwrap_or(3);
    let tick: u32 = m.get("tick").and_then(|s| s.parse().ok()).unwrap_or(2);
    let ties = m.get("ties").map(|s| s == "1").unwrap_or(false);
    let toggle = m.get("toggle").map(|s| s == "1").unwrap_or(false);
    // profile name shown in the history ids (the per-property projections key on it)
    let pname: String = m.get("profile").cloned().unwrap_or_else(|| if toggle { "toggle".into() } else if ties { "ties".into() } else { "disciplined".into() });
    let (shard, nshards) = m.get("shard").and_then(|s| { let mut it = s.split('/'); Some((it.next()?.parse::<usize>().ok()?, it.next()?.parse::<usize>().ok()?)) }).unwrap_or((0, 1));
    let out = std::io::stdout();
    let mut w = BufWriter::with_capacity(1 << 20, out.lock());
    let scratch = scratch_dir();
    let prices = [5 * tick, 6 * tick];
    let alphabet = |n_orders: usize| -> Vec<Op> {
        let mut v = Vec::new();
        for &bid in &[true, false] {
            for &p in &prices { for &vol in &[1u32, 2] { v.push(Op::Cap(bid, vol, 1, Some(p))); } }
            for &vol in &[1u32, 3] { v.push(Op::Cap(bid, vol, 2, None)); }
        }
        for i in 0..n_orders {
            v.push(Op::Cancel(i));
            for p in [None, Some(prices[0]), Some(prices[1])] {
                for vol in [None, Some(1u32), Some(3)] {
                    if p.is_none() && vol.is_none() { continue; }
                    v.push(Op::Modify(i, p, vol));
                }
            }
        }
        if toggle { v.push(Op::Trading(false)); v.push(Op::Trading(true)); }
        v
    };
    // depth-first enumeration with an explicit stack of choice indices
    let mut count: usize = 0;
    let mut seq: Vec<Op> = Vec::new();
    fn n_created(seq: &[Op]) -> usize { seq.iter().filter(|o| matches!(o, Op::Cap(..))).count() }
    #[allow(clippy::too_many_arguments)]
    fn rec<W: Write>(seq: &mut Vec<Op>, depth: usize, alphabet: &dyn Fn(usize) -> Vec<Op>, count: &mut usize, shard: usize, nshards: usize,
                     ties: bool, tick: u32, pname: &str, scratch: &std::path::PathBuf, w: &mut W) {
        if seq.len() == depth {
            let k = *count;
            *count += 1;
            if k % nshards != shard { return; }
            let mut ops: Vec<Op> = Vec::new();
            let mut t: u64 = 10;
            for o in seq.iter() {
                if !ties { t += 1; ops.push(Op::Time(t)); }
                ops.push(o.clone());
            }
            // drain probes
            ops.push(Op::Trading(true));
            t += 1; ops.push(Op::Time(t));
            ops.push(Op::Cap(true, 50, 9, None));
            t += 1; ops.push(Op::Time(t));
            ops.push(Op::Cap(false, 50, 9, None));
            let h = BookHeader { id: format!("{}-enum{}-{}", pname, depth, k), profile: pname.to_string(), t0: 10, tick, trading: true, levels: 3 };
            run_fixed::<3, W>(&h, &ops, scratch.clone(), w);
            return;
        }
        let n = n_created(seq);
        for o in alphabet(n) {
            seq.push(o);
            rec(seq, depth, alphabet, count, shard, nshards, ties, tick, pname, scratch, w);
            seq.pop();
        }
    }
    rec(&mut seq, depth, &alphabet, &mut count, shard, nshards, ties, tick, &pname, &scratch, &mut w);
    w.flush().unwrap();
    let _ = std::fs::remove_dir_all(&scratch);
}

fn book_replay(path: &str) {
    let f = std::fs::File::open(path).expect("open replay file");
    let rd = std::io::BufReader::new(f);
    let out = std::io::stdout();
    let mut w = BufWriter::with_capacity(1 << 20, out.lock());
    let scratch = scratch_dir();
    let mut cur: Option<(BookHeader, Vec<Op>)> = None;
    let flush = |cur: &mut Option<(BookHeader, Vec<Op>)>, w: &mut BufWriter<std::io::StdoutLock>| {
        if let Some((h, ops)) = cur.take() {
            let l = h.levels;
            with_levels!(l, run_fixed, &h, &ops, scratch.clone(), w);
        }
    };
    for line in rd.lines() {
        let line = line.unwrap();
        let toks: Vec<&str> = line.split_whitespace().collect();
        if toks.is_empty() {
            continue;
        }
        match toks[0] {
            "H" => {
                flush(&mut cur, &mut w);
                match BookHeader::parse(&toks) {
                    Some(h) => cur = Some((h, Vec::new())),
                    None => eprintln!("bad header: {}", line),
                }
            }
            "O" => {
                if let (Some((_, ops)), Some(op)) = (cur.as_mut(), Op::parse(&toks[1..])) {
                    ops.push(op);
                } else {
                    eprintln!("bad op: {}", line);
                }
            }
            _ => {}
        }
    }
    flush(&mut cur, &mut w);
    w.flush().unwrap();
    let _ = std::fs::remove_dir_all(&scratch);
}

macro_rules! with_env_levels {
    ($l:expr, $body:ident, $($args:expr),*) => {
        match $l {
            1 => $body::<1>($($args),*),
            2 => $body::<2>($($args),*),
            3 => $body::<3>($($args),*),
            5 => $body::<5>($($args),*),
            10 => $body::<10>($($args),*),
            24 => $body::<24>($($args),*),
            other => panic!("unsupported level count {}", other),
        }
    };
}

fn run_env_hist<const L: usize>(h: &EnvHeader, g: Option<&mut EGen>, fixed: &[EOp], rounds: usize, w: &mut BufWriter<std::io::StdoutLock>) {
    if h.kind == "env" {
        let env = EnvW::<L>(Env::<L>::new(h.t0, h.ticks[0], h.step, h.trading), h.step);
        run_env(h, env, g, fixed, rounds, w);
    } else {
        macro_rules! go { ($a:literal) => {{
            let ticks: [u32; $a] = std::array::from_fn(|i| h.ticks[i]);
            let env = MEnvW::<$a, L>(MarketEnv::<$a, L>::new(h.t0, ticks, h.step, h.trading), h.step);
            run_env(h, env, g, fixed, rounds, w);
        }}; }
        match h.ticks.len() { 1 => go!(1), 2 => go!(2), 3 => go!(3), 4 => go!(4), n => panic!("unsupported asset count {}", n) }
    }
}

fn run_env_crowd_hist<const L: usize>(h: &EnvHeader, w: &mut BufWriter<std::io::StdoutLock>) {
    use bourse_verif_harness::envdrive::run_env_crowd;
    if h.kind == "env" {
        run_env_crowd(h, EnvW::<L>(Env::<L>::new(h.t0, h.ticks[0], h.step, h.trading), h.step), w);
    } else {
        let ticks: [u32; 2] = std::array::from_fn(|i| h.ticks[i % h.ticks.len()]);
        run_env_crowd(h, MEnvW::<2, L>(MarketEnv::<2, L>::new(h.t0, ticks, h.step, h.trading), h.step), w);
    }
}

fn run_env_long_hist<const L: usize>(h: &EnvHeader, g: &mut EGen, rounds: usize, w: &mut BufWriter<std::io::StdoutLock>) {
    use bourse_verif_harness::envdrive::run_env_long;
    if h.kind == "env" {
        let env = EnvW::<L>(Env::<L>::new(h.t0, h.ticks[0], h.step, h.trading), h.step);
        run_env_long(h, env, g, rounds, w);
    } else {
        macro_rules! go { ($a:literal) => {{
            let ticks: [u32; $a] = std::array::from_fn(|i| h.ticks[i]);
            let env = MEnvW::<$a, L>(MarketEnv::<$a, L>::new(h.t0, ticks, h.step, h.trading), h.step);
            run_env_long(h, env, g, rounds, w);
        }}; }
        match h.ticks.len() { 1 => go!(1), 2 => go!(2), 3 => go!(3), 4 => go!(4), n => panic!("unsupported asset count {}", n) }
    }
}

fn run_market_hist<const L: usize>(h: &MarketHeader, g: Option<&mut MGen>, fixed: &[MOp], n_ops: usize, scratch: std::path::PathBuf, w: &mut BufWriter<std::io::StdoutLock>) {
    match h.ticks.len() {
        1 => run_market::<1, L, _>(h, g, fixed, n_ops, scratch, w),
        2 => run_market::<2, L, _>(h, g, fixed, n_ops, scratch, w),
        3 => run_market::<3, L, _>(h, g, fixed, n_ops, scratch, w),
        4 => run_market::<4, L, _>(h, g, fixed, n_ops, scratch, w),
        // more than ten assets: two-digit asset indices (snapshot layouts keyed by index, index-ordered queries)
        12 => run_market::<12, L, _>(h, g, fixed, n_ops, scratch, w),
        n => panic!("unsupported asset count {}", n),
    }
}

/// env-gen --kind env|menv --profile P --seed S --hists N --rounds R [--levels ..] [--assets 1,2,3] [--ticks ..]
fn env_gen(m: &HashMap<String, String>) {
    let kind = m.get("kind").cloned().unwrap_or_else(|| "env".into());
    let profile = m.get("profile").cloned().unwrap_or_else(|| "plain".into());
    let seed: u64 = m.get("seed").and_then(|s| s.parse().ok()).unwrap_or(1);
    let hists: usize = m.get("hists").and_then(|s| s.parse().ok()).unwrap_or(10);
    let rounds: usize = m.get("rounds").and_then(|s| s.parse().ok()).unwrap_or(8);
    let levels: Vec<usize> = m.get("levels").map(|s| list(s)).unwrap_or_else(|| vec![3]);
    let assets: Vec<usize> = m.get("assets").map(|s| list(s)).unwrap_or_else(|| vec![1, 2, 3]);
    let ticks: Vec<u32> = m.get("ticks").map(|s| list(s)).unwrap_or_else(|| vec![1, 2, 3, 5, 10]);
    let out = std::io::stdout();
    let mut w = BufWriter::with_capacity(1 << 20, out.lock());
    for hi in 0..hists {
        let mut rng = Xoroshiro128StarStar::seed_from_u64(seed.wrapping_mul(0x9E3779B97F4A7C15).wrapping_add(hi as u64) ^ 0x5EED);
        let l = levels[rng.gen_range(0..levels.len())];
        let na = if kind == "env" { 1 } else { assets[rng.gen_range(0..assets.len())] };
        let tks: Vec<u32> = (0..na).map(|_| ticks[rng.gen_range(0..ticks.len())]).collect();
        let step: u64 = if profile == "overfull" { [1u64, 2, 5][rng.gen_range(0..3)] } else { [1u64, 3, 8, 16, 100][rng.gen_range(0..5)] };
        let trading = if profile == "toggle" { rng.gen::<f64>() < 0.6 } else { rng.gen::<f64>() < 0.9 };
        let t0: u64 = rng.gen_range(0..50);
        // (one environment in ten is seeded with a boundary value)
        let env_seed: u64 = { let s = rng.gen_range(0..1_000_000); if rng.gen::<f64>() < 0.1 { [0u64, 1, u64::MAX, 1 << 32][(s % 4) as usize] } else { s } };
        let h = EnvHeader { id: format!("{}{}-{}-{}", kind, profile, seed, hi), profile: profile.clone(), kind: kind.clone(),
            seed: env_seed, t0, ticks: tks.clone(), step, trading, levels: l };
        // a wide window now and then, so that all ten published levels (and the level scan's far end) hold different amounts
        // (with ten or more published levels: often a window twice as wide as the level range, so that the far levels - 8, 9 -
        // of both sides hold volume)
        let np = { let u = rng.gen::<f64>(); if l >= 10 && u < 0.3 { 24 } else if l >= 10 && u < 0.5 { 12 } else if u < 0.12 { 12 } else if u < 0.4 { 6 } else { 3 } };
        let base = rng.gen_range(1..20);
        let vols = if profile == "unusual" { vec![0, 0, 1, 2, 3, 5] }
                   else if (profile == "py" || profile == "npy") && rng.gen::<f64>() < 0.3 { vec![0, 0, 1, 2, 5] }
                   // (now and then - not in the ten-level streams the Python driver replays - volumes of about 2^30 .. 2^31: a few steps trade more than 2^32 in total while every
                   // order, every side total and every single step's traded volume stay below 2^32)
                   else if profile == "plain" && l != 10 && rng.gen::<f64>() < 0.1 { vec![1 << 30, (1u32 << 31) - 1, 1 << 29, 3 << 29] }
                   else if rng.gen::<f64>() < 0.5 { vec![1, 2, 3] } else { vec![1, 2, 5, 10] };
        let mut g = EGen { rng, profile: profile.clone(), ticks: tks, base, n_prices: np, vols, step, trading };
        if profile == "crowd" {
            let hc = EnvHeader { trading: true, ..h.clone() };
            with_env_levels!(l, run_env_crowd_hist, &hc, &mut w);
            continue;
        }
        if profile == "long" {
            with_env_levels!(l, run_env_long_hist, &h, &mut g, rounds, &mut w);
            continue;
        }
        with_env_levels!(l, run_env_hist, &h, Some(&mut g), &[], rounds, &mut w);
    }
    w.flush().unwrap();
}

fn market_gen(m: &HashMap<String, String>) {
    let profile = m.get("profile").cloned().unwrap_or_else(|| "plain".into());
    let seed: u64 = m.get("seed").and_then(|s| s.parse().ok()).unwrap_or(1);
    let hists: usize = m.get("hists").and_then(|s| s.parse().ok()).unwrap_or(10);
    let n_ops: usize = m.get("ops").and_then(|s| s.parse().ok()).unwrap_or(80);
    let levels: Vec<usize> = m.get("levels").map(|s| list(s)).unwrap_or_else(|| vec![3]);
    let assets: Vec<usize> = m.get("assets").map(|s| list(s)).unwrap_or_else(|| vec![1, 2, 3, 4]);
    let ticks: Vec<u32> = m.get("ticks").map(|s| list(s)).unwrap_or_else(|| vec![1, 2, 3, 5, 10]);
    let out = std::io::stdout();
    let mut w = BufWriter::with_capacity(1 << 20, out.lock());
    let scratch = scratch_dir();
    for hi in 0..hists {
        let mut rng = Xoroshiro128StarStar::seed_from_u64(seed.wrapping_mul(0x9E3779B97F4A7C15).wrapping_add(hi as u64) ^ 0xA55E7);
        let l = levels[rng.gen_range(0..levels.len())];
        let na = assets[rng.gen_range(0..assets.len())];
        let tks: Vec<u32> = (0..na).map(|_| ticks[rng.gen_range(0..ticks.len())]).collect();
        let trading = rng.gen::<f64>() < 0.85;
        let t0: u64 = rng.gen_range(0..50);
        let h = MarketHeader { id: format!("market{}-{}-{}", profile, seed, hi), profile: profile.clone(), t0, ticks: tks.clone(), trading, levels: l };
        let base = rng.gen_range(1..20);
        let vols = if rng.gen::<f64>() < 0.5 { vec![1, 2, 3] } else { vec![1, 2, 5, 10] };
        let mut g = MGen { rng, profile: profile.clone(), ticks: tks, base, n_prices: 3, vols, t: t0, trading };
        with_env_levels!(l, run_market_hist, &h, Some(&mut g), &[], n_ops, scratch.clone(), &mut w);
    }
    w.flush().unwrap();
    let _ = std::fs::remove_dir_all(&scratch);
}

/// trunc --seed S --hists N --ops M : every strict prefix of a snapshot file must be rejected with
/// an error (no panic, no successful load).
fn trunc_one<const L: usize>(h: &BookHeader, g: &mut Gen, n_ops: usize, scratch: std::path::PathBuf, pretty: bool) -> (usize, Vec<String>) {
    use bourse_book::OrderBook;
    let mut sink = std::io::sink();
    let live = bourse_verif_harness::gen::gen_and_run_keep::<L, _>(h, g, n_ops, scratch.clone(), &mut sink);
    std::fs::create_dir_all(&scratch).unwrap();
    let path = scratch.join("trunc_full.json");
    live.book.save_json(&path, pretty).unwrap();
    let bytes = std::fs::read(&path).unwrap();
    let tpath = scratch.join("trunc_cut.json");
    let mut bad = Vec::new();
    for cut in 0..bytes.len() {
        std::fs::write(&tpath, &bytes[..cut]).unwrap();
        let r = std::panic::catch_unwind(|| OrderBook::<L>::load_json(&tpath));
        match r {
            Ok(Err(_)) => {}
            Ok(Ok(_)) => bad.push(format!("loaded:{}", cut)),
            Err(_) => bad.push(format!("panic:{}", cut)),
        }
    }
    // the untruncated file must load
    if OrderBook::<L>::load_json(&path).is_err() { bad.push("full_file_rejected".into()); }
    // market file (2 assets sharing the same book state is not constructible: use a fresh 2-asset market with orders)
    {
        use bourse_book::types::Side;
        use bourse_book::Market;
        let mut m: Market<2, L> = Market::new(h.t0, [h.tick, h.tick], true);
        for (i, o) in live.book.get_orders().iter().enumerate().take(12) {
            let is_bid = matches!(o.side, Side::Bid);
            let _ = m.create_and_place_order(i % 2, if is_bid { Side::Bid } else { Side::Ask }, o.start_vol, o.trader_id,
                                             if (is_bid && o.price == u32::MAX) || (!is_bid && o.price == 0) { None } else { Some(o.price) });
        }
        let mpath = scratch.join("trunc_market.json");
        m.save_json(&mpath, pretty).unwrap();
        let mb = std::fs::read(&mpath).unwrap();
        for cut in 0..mb.len() {
            std::fs::write(&tpath, &mb[..cut]).unwrap();
            let r = std::panic::catch_unwind(|| Market::<2, L>::load_json(&tpath));
            match r {
                Ok(Err(_)) => {}
                Ok(Ok(_)) => bad.push(format!("market_loaded:{}", cut)),
                Err(_) => bad.push(format!("market_panic:{}", cut)),
            }
        }
        if Market::<2, L>::load_json(&mpath).is_err() { bad.push("market_full_file_rejected".into()); }
        return (bytes.len() + mb.len(), bad);
    }
}

fn trunc(m: &HashMap<String, String>) {
    let seed: u64 = m.get("seed").and_then(|s| s.parse().ok()).unwrap_or(1);
    let hists: usize = m.get("hists").and_then(|s| s.parse().ok()).unwrap_or(10);
    let n_ops: usize = m.get("ops").and_then(|s| s.parse().ok()).unwrap_or(30);
    let scratch = scratch_dir();
    for hi in 0..hists {
        let mut rng = Xoroshiro128StarStar::seed_from_u64(seed.wrapping_mul(0x9E3779B97F4A7C15).wrapping_add(hi as u64) ^ 0x7A11);
        let tick = [1u32, 2, 5][rng.gen_range(0..3)];
        let trading = rng.gen::<f64>() < 0.8;
        let h = BookHeader { id: format!("trunc-{}-{}", seed, hi), profile: "toggle".into(), t0: 0, tick, trading, levels: if hi % 2 == 0 { 1 } else { 10 } };
        let mut g = Gen { rng, profile: "toggle".into(), tick, base: 3, n_prices: 4, vols: vec![1, 2, 5], t: 0, trading };
        let pretty = hi % 3 == 0;
        let (len, bad) = if hi % 2 == 0 { trunc_one::<1>(&h, &mut g, n_ops, scratch.clone(), pretty) } else { trunc_one::<10>(&h, &mut g, n_ops, scratch.clone(), pretty) };
        println!("T {} offsets={} pretty={} {}", h.id, len, pretty, if bad.is_empty() { "ok".to_string() } else { format!("BAD:{}", bad.join(",")) });
    }
    let _ = std::fs::remove_dir_all(&scratch);
}

use bourse_verif_harness::sim::{fnv64, run_sim, run_sim_manual, SimSpec};

/// Random specification of a simulation. `mix`: 0 = RandomAgents only (exactly modelled in Lean),
/// 1 = all built-in agent types.
fn gen_sim_spec(rng: &mut Xoroshiro128StarStar, mix: bool) -> SimSpec {
    let multi = rng.gen::<f64>() < 0.4;
    let na = if multi { rng.gen_range(1..4) } else { 1 };
    let ticks: Vec<u32> = (0..na).map(|_| [1u32, 2, 5, 10][rng.gen_range(0..4)]).collect();
    // step sizes 1 and 2 give over-full steps (more instructions than time units)
    let step = [1u64, 2, 4, 16, 100, 1000][rng.gen_range(0..6)];
    let n_agents = rng.gen_range(1..5);
    let mut agents = Vec::new();
    let mut next_trader = 100u32;
    for _ in 0..n_agents {
        let asset = rng.gen_range(0..na);
        let tick = ticks[asset];
        let kind = if mix { ['R', 'N', 'M'][rng.gen_range(0..3)] } else { 'R' };
        let f: Vec<String> = match kind {
            'R' => {
                let lo = rng.gen_range(5..30u32);
                let hi = lo + rng.gen_range(1..8u32);
                let vlo = rng.gen_range(1..5u32);
                let vhi = vlo + rng.gen_range(1..6u32);
                let rate = ["0/16", "1/16", "4/16", "8/16", "12/16", "16/16", "24/16"][rng.gen_range(0..7)];
                vec![rng.gen_range(1..7u32).to_string(), lo.to_string(), hi.to_string(), vlo.to_string(), vhi.to_string(), tick.to_string(), rate.to_string()]
            }
            'N' => {
                let n = rng.gen_range(1..8u32);
                let start = next_trader;
                next_trader += n;
                let pr = ["0/1", "1/8", "1/2", "1/1"];
                vec![start.to_string(), n.to_string(), tick.to_string(), pr[rng.gen_range(0..4)].into(), pr[rng.gen_range(0..4)].into(),
                     pr[rng.gen_range(0..4)].into(), rng.gen_range(1..20u32).to_string(), ["0", "1", "3"][rng.gen_range(0..3)].into(),
                     ["1/2", "1", "10"][rng.gen_range(0..3)].into()]
            }
            _ => {
                let n = rng.gen_range(1..8u32);
                let start = next_trader;
                next_trader += n;
                let pr = ["0/1", "1/8", "1/2", "1/1"];
                vec![start.to_string(), n.to_string(), tick.to_string(), pr[rng.gen_range(0..4)].into(), rng.gen_range(1..20u32).to_string(),
                     ["1/2", "1/4", "1"][rng.gen_range(0..3)].into(), ["1", "5", "40"][rng.gen_range(0..3)].into(),
                     ["1/100", "1/2", "4"][rng.gen_range(0..3)].into(), ["0", "1/2", "1"][rng.gen_range(0..3)].into(),
                     ["0", "1"][rng.gen_range(0..2)].into(), ["1/2", "1", "10"][rng.gen_range(0..3)].into()]
            }
        };
        agents.push(bourse_verif_harness::sim::AgentSpec { kind, asset, f });
    }
    let seed = if rng.gen::<f64>() < 0.12 { [0u64, 1, 1 << 32, u64::MAX][rng.gen_range(0..4)] } else { rng.gen_range(0..1_000_000) };
    // mostly short runs; now and then a long one whose length is not a round number (a progress bar that
    // advances in blocks, a buffer that is flushed every so many steps, ... only show there)
    let steps = if rng.gen::<f64>() < 0.1 { [0u64, 100, 101, 201, 251, 365, 1001][rng.gen_range(0..7)] } else { rng.gen_range(1..40) };
    SimSpec { seed, t0: rng.gen_range(0..100), ticks, step, trading: rng.gen::<f64>() < 0.9,
              steps, multi, agents }
}

/// sim-gen --seed S --n N --mix 0|1 : run N generated simulations with the real runner.
/// mix=0: prints H/O/I streams for the Lean model; always prints `D <spec> <digest…>` lines comparing
/// derived vs hand-written sets, progress bar on/off and a repeated run.
fn sim_gen(m: &HashMap<String, String>) {
    let seed: u64 = m.get("seed").and_then(|s| s.parse().ok()).unwrap_or(1);
    let n: usize = m.get("n").and_then(|s| s.parse().ok()).unwrap_or(10);
    let mix = m.get("mix").map(|s| s == "1").unwrap_or(false);
    for i in 0..n {
        let mut rng = Xoroshiro128StarStar::seed_from_u64(seed.wrapping_mul(0x9E3779B97F4A7C15).wrapping_add(i as u64) ^ 0x51A1);
        let spec = gen_sim_spec(&mut rng, mix);
        let a = run_sim(&spec, false, false);
        let b = run_sim(&spec, true, false);
        let c = run_sim(&spec, false, true);
        let d = run_sim(&spec, false, false);
        let mut other = spec.clone();
        other.seed = other.seed.wrapping_add(1);
        let e = run_sim(&other, false, false);
        let f = run_sim_manual(&spec);
        let g = bourse_verif_harness::sim::run_sim_moved(&spec);
        if !mix {
            println!("H sim{}-{}-{} {} sim {}", if mix { "mix" } else { "rand" }, seed, i, if mix { "mix" } else { "rand" }, spec.line());
            println!("I r=u sh=ok perm=- rngck=1 n=0");
            println!("O run");
            println!("I {}", a);
        }
        println!("D {:016x} progress={:016x} hand={:016x} again={:016x} otherseed={:016x} manual={:016x} moved={:016x} panic={} {}", fnv64(&a), fnv64(&b), fnv64(&c), fnv64(&d), fnv64(&e), fnv64(&f), fnv64(&g),
                 if a.starts_with("r=PANIC") { 1 } else { 0 }, spec.line());
    }
}

fn sim_run(args: &[String]) {
    let toks: Vec<&str> = args.iter().map(|s| s.as_str()).collect();
    let spec = SimSpec::parse(&toks).expect("bad sim spec");
    let a = run_sim(&spec, false, false);
    println!("D {:016x} {}", fnv64(&a), spec.line());
}

/// agent-audit --seed S --n N : drive the real agents step by step and audit every instruction they emit.
fn agent_audit(m: &HashMap<String, String>) {
    use bourse_verif_harness::agents::{gen_audit_cfg, run_audit};
    let seed: u64 = m.get("seed").and_then(|s| s.parse().ok()).unwrap_or(1);
    let n: usize = m.get("n").and_then(|s| s.parse().ok()).unwrap_or(10);
    for i in 0..n {
        let mut rng = Xoroshiro128StarStar::seed_from_u64(seed.wrapping_mul(0x9E3779B97F4A7C15).wrapping_add(i as u64) ^ 0xA0D17);
        let cfg = gen_audit_cfg(&mut rng);
        let o = run_audit(&cfg);
        if let Err(e) = &o.verdict {
            if e.starts_with("harness_or_setup") {
                eprintln!("audit-{}-{}: {}", seed, i, LAST_PANIC.lock().map(|g| g.clone()).unwrap_or_default());
            }
        }
        println!("AA audit-{}-{} {} orders={} limit={} market={} cancels={} {}", seed, i,
                 match &o.verdict { Ok(()) => "ok".to_string(), Err(e) => format!("BAD:{}", e) }, o.orders, o.limit, o.market, o.cancels, cfg.line());
    }
}

/// momentum --seed S --n N : momentum agents on harness-controlled quotes, with the mirrored run.
fn momentum(m: &HashMap<String, String>) {
    use bourse_verif_harness::agents::{gen_mom_cfg, mom_steps_s, run_mom};
    let seed: u64 = m.get("seed").and_then(|s| s.parse().ok()).unwrap_or(1);
    let n: usize = m.get("n").and_then(|s| s.parse().ok()).unwrap_or(10);
    for i in 0..n {
        let mut rng = Xoroshiro128StarStar::seed_from_u64(seed.wrapping_mul(0x9E3779B97F4A7C15).wrapping_add(i as u64) ^ 0x303E);
        let saturated = i % 3 != 2;
        let cfg = gen_mom_cfg(&mut rng, saturated);
        let a = run_mom(&cfg);
        let b = run_mom(&cfg.mirrored());
        println!("MM mom-{}-{} sat={} steps={} mirror={} {}", seed, i, if saturated { 1 } else { 0 }, mom_steps_s(&a), mom_steps_s(&b), cfg.line());
    }
}

/// snap-dump STREAM DIR : replay the book histories of STREAM (levels 10) and save `<DIR>/<hid>.rust.json`.
fn snap_dump(stream: &str, dir: &str) {
    use bourse_verif_harness::bookdrive::Live;
    std::fs::create_dir_all(dir).unwrap();
    let rd = std::io::BufReader::new(std::fs::File::open(stream).expect("open stream"));
    let mut cur: Option<(BookHeader, Live<10>)> = None;
    let save = |cur: &mut Option<(BookHeader, Live<10>)>| {
        if let Some((h, live)) = cur.take() {
            if !live.dead {
                let _ = live.book.save_json(format!("{}/{}.rust.json", dir, h.id), false);
            }
        }
    };
    for line in rd.lines() {
        let line = line.unwrap();
        let toks: Vec<&str> = line.split_whitespace().collect();
        if toks.is_empty() { continue; }
        match toks[0] {
            "H" => {
                save(&mut cur);
                if let Some(h) = BookHeader::parse(&toks) {
                    if h.levels == 10 {
                        if let Some(l) = Live::<10>::new(&h, scratch_dir()) { cur = Some((h, l)); }
                    }
                }
            }
            "O" => {
                if let (Some((_, live)), Some(op)) = (cur.as_mut(), Op::parse(&toks[1..])) {
                    if !live.dead { let _ = live.step(&op); }
                }
            }
            _ => {}
        }
    }
    save(&mut cur);
}

/// snap-load DIR : load every `<hid>.py.json` written by the Python driver with the Rust core.
fn snap_load(dir: &str) {
    use bourse_book::OrderBook;
    let mut names: Vec<_> = std::fs::read_dir(dir).unwrap().filter_map(|e| e.ok()).map(|e| e.path()).filter(|p| p.to_string_lossy().ends_with(".py.json")).collect();
    names.sort();
    for p in names {
        let hid = p.file_name().unwrap().to_string_lossy().replace(".py.json", "");
        match std::panic::catch_unwind(|| OrderBook::<10>::load_json(&p)) {
            Ok(Ok(b)) => println!("X {} {}", hid, bourse_verif_harness::obs::observe(&b, true)),
            Ok(Err(e)) => println!("X {} ERR:{}", hid, e.to_string().replace(' ', "_")),
            Err(_) => println!("X {} PANIC", hid),
        }
    }
}

enum Hist {
    Book(BookHeader, Vec<Op>),
    Env(EnvHeader, Vec<EOp>),
    Market(MarketHeader, Vec<MOp>),
}

/// replay FILE — any mix of book / env / menv / market histories (`H` and `O` lines)
fn replay(path: &str) {
    let f = std::fs::File::open(path).expect("open replay file");
    let rd = std::io::BufReader::new(f);
    let out = std::io::stdout();
    let mut w = BufWriter::with_capacity(1 << 20, out.lock());
    let scratch = scratch_dir();
    let mut cur: Option<Hist> = None;
    let flush = |cur: &mut Option<Hist>, w: &mut BufWriter<std::io::StdoutLock>| {
        match cur.take() {
            Some(Hist::Book(h, ops)) => { let l = h.levels; with_levels!(l, run_fixed, &h, &ops, scratch.clone(), w); }
            Some(Hist::Env(h, ops)) => { let l = h.levels; with_env_levels!(l, run_env_hist, &h, None, &ops, 0, w); }
            Some(Hist::Market(h, ops)) => { let l = h.levels; with_env_levels!(l, run_market_hist, &h, None, &ops, 0, scratch.clone(), w); }
            None => {}
        }
    };
    for line in rd.lines() {
        let line = line.unwrap();
        let toks: Vec<&str> = line.split_whitespace().collect();
        if toks.is_empty() { continue; }
        match toks[0] {
            "H" => {
                flush(&mut cur, &mut w);
                if let Some(h) = BookHeader::parse(&toks) { cur = Some(Hist::Book(h, Vec::new())); }
                else if let Some(h) = EnvHeader::parse(&toks) { cur = Some(Hist::Env(h, Vec::new())); }
                else if let Some(h) = MarketHeader::parse(&toks) { cur = Some(Hist::Market(h, Vec::new())); }
                else { eprintln!("bad header: {}", line); }
            }
            "O" => match cur.as_mut() {
                Some(Hist::Book(_, ops)) => { if let Some(op) = Op::parse(&toks[1..]) { ops.push(op) } else { eprintln!("bad op: {}", line) } }
                Some(Hist::Env(_, ops)) => { if let Some(op) = EOp::parse(&toks[1..]) { ops.push(op) } else { eprintln!("bad op: {}", line) } }
                Some(Hist::Market(_, ops)) => { if let Some(op) = MOp::parse(&toks[1..]) { ops.push(op) } else { eprintln!("bad op: {}", line) } }
                None => {}
            },
            _ => {}
        }
    }
    flush(&mut cur, &mut w);
    w.flush().unwrap();
    let _ = std::fs::remove_dir_all(&scratch);
}

/// Last panic message (panics inside `catch_unwind` are expected and silent; one that escapes
/// kills the process, and then this is what went wrong).
static LAST_PANIC: std::sync::Mutex<String> = std::sync::Mutex::new(String::new());

fn main() {
    std::panic::set_hook(Box::new(|info| {
        if let Ok(mut g) = LAST_PANIC.lock() {
            *g = info.to_string();
        }
    }));
    let r = std::panic::catch_unwind(real_main);
    if r.is_err() {
        eprintln!("harness panicked outside a guarded call: {}", LAST_PANIC.lock().map(|g| g.clone()).unwrap_or_default());
        std::process::exit(101);
    }
}

fn real_main() {
    let args: Vec<String> = std::env::args().collect();
    if args.len() < 2 {
        eprintln!("usage: drive <book-gen|book-replay> ...");
        std::process::exit(2);
    }
    let m = args_map(&args[2..]);
    match args[1].as_str() {
        "book-gen" => book_gen(&m),
        "book-enum" => book_enum(&m),
        "book-replay" => replay(&args[2]),
        "replay" => replay(&args[2]),
        "env-gen" => env_gen(&m),
        "trunc" => trunc(&m),
        "price-helpers" => bourse_verif_harness::helpers::run(
            m.get("seed").and_then(|s| s.parse().ok()).unwrap_or(1),
            m.get("n").and_then(|s| s.parse().ok()).unwrap_or(1000),
        ),
        "f64-ops" => bourse_verif_harness::floatx::f64_ops(
            m.get("seed").and_then(|s| s.parse().ok()).unwrap_or(1),
            m.get("n").and_then(|s| s.parse().ok()).unwrap_or(1000),
        ),
        "agent-exact" => bourse_verif_harness::floatx::agent_exact(
            m.get("seed").and_then(|s| s.parse().ok()).unwrap_or(1),
            m.get("n").and_then(|s| s.parse().ok()).unwrap_or(20),
            m.get("kind").and_then(|s| s.chars().next()),
        ),
        "snap-dump" => snap_dump(&args[2], &args[3]),
        "snap-load" => snap_load(&args[2]),
        "sim-gen" => sim_gen(&m),
        "agent-audit" => agent_audit(&m),
        "momentum" => momentum(&m),
        "shapes" => {
            let seed: u64 = m.get("seed").and_then(|s| s.parse().ok()).unwrap_or(1);
            let mut out = Vec::new();
            bourse_verif_harness::shapes_gen::run_agent_shapes(seed, &mut out);
            bourse_verif_harness::shapes_gen::run_market_shapes(seed, &mut out);
            for l in out { println!("{}", l); }
        }
        "sim-run" => sim_run(&args[2..]),
        "market-gen" => market_gen(&m),
        other => {
            eprintln!("unknown subcommand {}", other);
            std::process::exit(2);
        }
    }
}
