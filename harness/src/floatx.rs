//! Ties for the `f64` model (`Model/F64.lean`) and the float-exact agent models.
//!
//! `f64_ops`: the hardware's `+ - * /`, `floor`, `ceil` on seeded operand pairs (`FO` lines); the
//! Lean driver recomputes each with `F64.rnd` over exact rationals and compares bit patterns.

use rand::{Rng, SeedableRng};
use rand_xoshiro::Xoroshiro128StarStar;

fn gen_f64(rng: &mut Xoroshiro128StarStar) -> f64 {
    match rng.gen_range(0..12) {
        // arbitrary bit patterns (NaNs, infinities, subnormals, huge and tiny magnitudes)
        0 => f64::from_bits(rng.gen::<u64>()),
        // prices and half prices
        1 => rng.gen_range(0..=u32::MAX) as f64,
        2 => rng.gen_range(0..=2 * (u32::MAX as u64)) as f64 / 2.0,
        3 => rng.gen_range(1..11) as f64,
        // typical samples
        4 => rng.gen::<f64>() * 100.0,
        5 => (rng.gen::<f64>() * 40.0 - 20.0).exp(),
        6 => -(rng.gen::<f64>() * 40.0 - 20.0).exp(),
        // uniform draws and probabilities
        7 => rng.gen::<f64>(),
        // near the ends of the format
        8 => f64::from_bits(rng.gen_range(0..(1u64 << 54))),
        9 => f64::from_bits(0x7fe0_0000_0000_0000 + rng.gen_range(0..(1u64 << 53))),
        // integers around 2^53, small integers of either sign
        10 => (rng.gen_range(-(1i64 << 54)..(1i64 << 54))) as f64,
        _ => rng.gen_range(-40i64..40) as f64,
    }
}

/// `f64-ops --seed S --n N`
pub fn f64_ops(seed: u64, n: usize) {
    let mut rng = Xoroshiro128StarStar::seed_from_u64(seed ^ 0xf64f64);
    for i in 0..n {
        let a = gen_f64(&mut rng);
        // half of the second operands are close to the first (cancellation, quotients near 1)
        let b = if rng.gen_bool(0.3) {
            f64::from_bits(a.to_bits().wrapping_add(rng.gen_range(0..64)).wrapping_sub(32))
        } else {
            gen_f64(&mut rng)
        };
        let (op, r) = match rng.gen_range(0..6) {
            0 => ("add", a + b),
            1 => ("sub", a - b),
            2 => ("mul", a * b),
            3 => ("div", a / b),
            4 => ("floor", a.floor()),
            _ => ("ceil", a.ceil()),
        };
        // a zero divisor's sign decides the sign of the infinity; the model has one zero: skip -0.0 divisors
        if op == "div" && b == 0.0 && b.is_sign_negative() { continue; }
        println!("FO fo-{}-{} {} {} {} {}", seed, i, op, a.to_bits(), b.to_bits(), r.to_bits());
    }
}

// ---------------------------------------------------------------------------------------------
// Float-exact agent histories (`agentx`): the REAL noise / momentum agents update a REAL
// environment; the Lean driver runs `Model/FloatAgents.lean` on its own model environment with the
// exact generator model and must predict every instruction, the generator state afterwards and the
// complete observation. The two library calls the model cannot compute are recorded here as tables:
// `smp=` (`LogNormal::sample` at every generator state the update passed through: value bits and the
// number of 64-bit draws it consumes) and `th=` (`f64::tanh` of the argument the documented
// recurrence produces).

use crate::envdrive::{EOp, EnvHeader, EnvLike, EnvLive, EnvW, MEnvW};
use crate::sim::{frac, AgentSpec};
use bourse_book::OrderError;
use bourse_de::agents::{Agent, MarketAgent};
use bourse_de::{Env, MarketEnv};
use rand::RngCore;
use rand_distr::{Distribution, LogNormal};
use std::io::Write;
use std::panic::{catch_unwind, AssertUnwindSafe};

/// A generator that records the state before every draw.
pub struct LogRng {
    pub inner: Xoroshiro128StarStar,
    pub log: Vec<(Xoroshiro128StarStar, bool)>,
}

impl RngCore for LogRng {
    fn next_u32(&mut self) -> u32 { self.log.push((self.inner.clone(), false)); self.inner.next_u32() }
    fn next_u64(&mut self) -> u64 { self.log.push((self.inner.clone(), true)); self.inner.next_u64() }
    fn fill_bytes(&mut self, dest: &mut [u8]) { self.log.push((self.inner.clone(), true)); self.inner.fill_bytes(dest) }
    fn try_fill_bytes(&mut self, dest: &mut [u8]) -> Result<(), rand::Error> { self.fill_bytes(dest); Ok(()) }
}

struct CountRng { inner: Xoroshiro128StarStar, n: usize, only64: bool }
impl RngCore for CountRng {
    fn next_u32(&mut self) -> u32 { self.n += 1; self.only64 = false; self.inner.next_u32() }
    fn next_u64(&mut self) -> u64 { self.n += 1; self.inner.next_u64() }
    fn fill_bytes(&mut self, dest: &mut [u8]) { self.n += 1; self.only64 = false; self.inner.fill_bytes(dest) }
    fn try_fill_bytes(&mut self, dest: &mut [u8]) -> Result<(), rand::Error> { self.fill_bytes(dest); Ok(()) }
}

/// The exact parameter values the model needs (`f32` / `f64` bit patterns), in the order of the spec.
fn bits_of(sp: &AgentSpec) -> String {
    match sp.kind {
        'N' => {
            let p = sp.noise_params();
            format!("{},{},{}", p.p_limit.to_bits(), p.p_market.to_bits(), p.p_cancel.to_bits())
        }
        _ => {
            let p = sp.momentum_params();
            format!("{},{},{},{},{}", p.p_cancel.to_bits(), p.decay.to_bits(), p.demand.to_bits(), p.scale.to_bits(), p.order_ratio.to_bits())
        }
    }
}

struct XCfg { warmup: usize, multi: bool, asset: usize, tick: u32, seed: u64, steps: usize, step_size: u64, start_book: u8, toggles: bool, subject: AgentSpec }

/// Seeds of `Xoroshiro128StarStar::seed_from_u64` whose i-th `next_u32` draw (row i) gives `gen::<f32>() == 0.0`
/// (found by exhaustive search over seeds below 2^29: each such draw has probability 2^-24). With an empty
/// starting book and probabilities 0 the i-th draw of the first update is the activity test of trader i/2.
const ZERO_DRAW_SEEDS: [[u64; 4]; 12] = [
    [153381, 9004614, 18209628, 35558597], [2430464, 2896121, 43443094, 50175338], [10441031, 20188024, 30484391, 33708971],
    [5675771, 27935284, 28409074, 63157912], [6712099, 6738254, 13569108, 14107358], [19780649, 42738412, 43239221, 66420373],
    [12699951, 18026787, 29209040, 36070134], [13468973, 19936301, 56193273, 81237425], [7017470, 11715693, 14122087, 22804584],
    [2161430, 4528298, 8787703, 14001436], [3249365, 18903352, 39036230, 54146523], [20798266, 42098630, 74884198, 86306231],
];

/// The probability-0 corner on a seed that draws exactly 0.0: a noise agent with all probabilities 0 must stay idle.
fn corner_xcfg(rng: &mut Xoroshiro128StarStar) -> XCfg {
    let multi = rng.gen::<f64>() < 0.4;
    let asset = if multi { rng.gen_range(0..2) } else { 0 };
    let tick: u32 = rng.gen_range(1..11);
    let i = rng.gen_range(0..12);
    let seed = ZERO_DRAW_SEEDS[i][rng.gen_range(0..4)];
    let f: Vec<String> = vec!["10".into(), "6".into(), tick.to_string(), "0/1".into(), "0/1".into(), "0/1".into(), "3".into(), "0".into(), "1".into()];
    XCfg { warmup: 0, multi, asset, tick, seed, steps: 2, step_size: 10, start_book: 0, toggles: false, subject: AgentSpec { kind: 'N', asset, f } }
}

fn gen_xcfg(rng: &mut Xoroshiro128StarStar, only: Option<char>) -> XCfg {
    let multi = rng.gen::<f64>() < 0.4;
    let asset = if multi { rng.gen_range(0..2) } else { 0 };
    let tick: u32 = rng.gen_range(1..11);
    let pr = |rng: &mut Xoroshiro128StarStar| ["0/1", "1/8", "1/3", "1/2", "9/10", "1/1", "3/2"][rng.gen_range(0..7)].to_string();
    let kind0 = ['N', 'M'][rng.gen_range(0..2)];
    let kind = only.unwrap_or(kind0);
    let n = rng.gen_range(1..7u32);
    let start = rng.gen_range(0..200u32);
    let f: Vec<String> = match kind {
        'N' => vec![start.to_string(), n.to_string(), tick.to_string(), pr(rng), pr(rng), pr(rng), rng.gen_range(1..20u32).to_string(),
                    ["0", "1", "3", "-2"][rng.gen_range(0..4)].into(), ["1/2", "1", "3", "10"][rng.gen_range(0..4)].into()],
        _ => vec![start.to_string(), n.to_string(), tick.to_string(), pr(rng), rng.gen_range(1..20u32).to_string(),
                  ["1/2", "1/4", "1", "1/3", "7/10", "3/2"][rng.gen_range(0..6)].into(), ["1", "5", "40", "1/3", "-2"][rng.gen_range(0..5)].into(),
                  ["1/100", "1/2", "4", "1/7", "-1/2"][rng.gen_range(0..5)].into(), ["0", "1/2", "1", "2", "1/3"][rng.gen_range(0..5)].into(),
                  ["0", "1", "-1"][rng.gen_range(0..3)].into(), ["1/2", "1", "3", "10"][rng.gen_range(0..4)].into()],
    };
    XCfg { warmup: rng.gen_range(0..4), multi, asset, tick, seed: rng.gen_range(0..1_000_000), steps: [2usize, 5, 12, 30][rng.gen_range(0..4)],
           step_size: [1u64, 3, 50, 1000][rng.gen_range(0..4)], start_book: rng.gen_range(0..6), toggles: rng.gen::<f64>() < 0.3,
           subject: AgentSpec { kind, asset, f } }
}

fn run_x<E: EnvLike<10>, W: Write>(hid: &str, cfg: &XCfg, env: E, mut update: impl FnMut(&mut E, &mut LogRng), w: &mut W) {
    let sp = &cfg.subject;
    let ticks: Vec<u32> = if cfg.multi { vec![cfg.tick, cfg.tick] } else { vec![cfg.tick] };
    let h = EnvHeader { id: hid.to_string(), profile: "agentx".into(), kind: if cfg.multi { "menv".into() } else { "env".into() },
                        seed: cfg.seed, t0: 0, ticks: ticks.clone(), step: cfg.step_size, trading: true, levels: 10 };
    let spec_s = format!("{}@{}:{}", sp.kind, sp.asset, sp.f.join(":"));
    writeln!(w, "{} agent={} bits={}", h.line(), spec_s, bits_of(sp)).unwrap();
    // no shadows here: what the agent queued is not observable before the step (the queue is private), so
    // the prediction of the queue is checked through the complete observation after the step
    let mut live = EnvLive { env, rng: Xoroshiro128StarStar::seed_from_u64(cfg.seed), shadows: Vec::new(), queue: Vec::new(), trading: true, dead: false };
    writeln!(w, "I {}", live.obs("u", "ok", "-", "1")).unwrap();
    // the harness's own generator for the market-moving foreign trader
    let mut hr = Xoroshiro128StarStar::seed_from_u64(cfg.seed ^ 0x77aa);
    let a = cfg.asset;
    let tick = cfg.tick;
    let emit = |live: &mut EnvLive<10, E>, op: &EOp, w: &mut W| {
        let r = catch_unwind(AssertUnwindSafe(|| {
            let mut res = "u".to_string();
            match op {
                EOp::Submit(a, bid, vol, tr, p) => match live.env.submit(*a, *bid, *vol, *tr, *p) {
                    Ok(id) => res = format!("ok:{}", id),
                    Err(OrderError::PriceError { price, tick_size }) => res = format!("err:{}:{}", price, tick_size),
                },
                EOp::Trading(b) => { live.env.trading(*b); live.trading = *b; }
                EOp::Step => live.env.do_step(&mut live.rng),
                _ => {}
            }
            res
        }));
        match r {
            Ok(res) => {
                match op {
                    EOp::Step => writeln!(w, "O xstep rng={}", live.rng.clone().next_u64()).unwrap(),
                    _ => writeln!(w, "O {}", op.line()).unwrap(),
                }
                writeln!(w, "I {}", live.obs(&res, "ok", "-", "1")).unwrap();
            }
            Err(_) => {
                live.dead = true;
                writeln!(w, "O {}", op.line()).unwrap();
                writeln!(w, "I r=PANIC sh=ok perm=- rngck=1 n=0").unwrap();
            }
        }
    };
    let low = cfg.start_book >= 4;
    let base = if low { 0 } else { 1000 * tick };
    if low {
        for k in 1..3u32 { emit(&mut live, &EOp::Submit(a, false, 50, 9000, Some(k * tick)), w); }
    } else {
        if cfg.start_book & 1 != 0 { for k in 1..4u32 { emit(&mut live, &EOp::Submit(a, true, 50, 9000, Some(base - k * tick)), w); } }
        if cfg.start_book & 2 != 0 { for k in 1..4u32 { emit(&mut live, &EOp::Submit(a, false, 50, 9000, Some(base + k * tick)), w); } }
    }
    emit(&mut live, &EOp::Step, w);
    let (decay, demand, scale) = if sp.kind == 'M' { let p = sp.momentum_params(); (p.decay, p.demand, p.scale) } else { (0.0, 0.0, 0.0) };
    let _ = demand;
    let (mu, sigma) = if sp.kind == 'N' { (frac(&sp.f[7]), frac(&sp.f[8])) } else { (frac(&sp.f[9]), frac(&sp.f[10])) };
    let dist = LogNormal::<f64>::new(mu, sigma).unwrap();
    let mut mom_m: f64 = 0.0;
    let mut mom_last: Option<f64> = None;
    for _step in 0..(cfg.steps + cfg.warmup) {
        if live.dead { return; }
        // the first `warmup` rounds only move the market: the agent joins a simulation that is already running
        let warming = _step < cfg.warmup;
        // keep the market moving
        let (bb, ba) = live.env.book(a).bid_ask();
        match hr.gen_range(0..6) {
            // while trading is off: cross the book (the agents then observe a crossed market)
            0 | 1 if !live.trading && bb > tick && ba < u32::MAX - tick => {
                if hr.gen_bool(0.5) { emit(&mut live, &EOp::Submit(a, true, 7, 9000, Some(ba + tick)), w) }
                else { emit(&mut live, &EOp::Submit(a, false, 7, 9000, Some(bb - tick)), w) }
            }
            0 if bb > 0 && ba < u32::MAX && bb + 2 * tick < ba => emit(&mut live, &EOp::Submit(a, true, 5, 9000, Some(bb + tick)), w),
            1 if bb > 0 && ba < u32::MAX && bb + 2 * tick < ba => emit(&mut live, &EOp::Submit(a, false, 5, 9000, Some(ba - tick)), w),
            2 if ba < u32::MAX => emit(&mut live, &EOp::Submit(a, true, 60, 9000, None), w),
            3 if bb > 0 => emit(&mut live, &EOp::Submit(a, false, 60, 9000, None), w),
            4 if cfg.toggles => { let t = !live.trading; emit(&mut live, &EOp::Trading(t), w) }
            _ => {}
        }
        if live.dead { return; }
        if warming { emit(&mut live, &EOp::Step, w); continue; }
        // the tanh table: the documented recurrence on the mid the agent is about to observe
        let mid = live.env.book(a).mid_price();
        let mut th = String::from("-");
        if sp.kind == 'M' {
            if let Some(p) = mom_last {
                mom_m = mom_m * (1.0 - decay) + decay * (mid - p);
                let x = scale * mom_m;
                th = format!("{}:{}", x.to_bits(), x.tanh().to_bits());
            }
            mom_last = Some(mid);
        }
        // the real update
        let mut lr = LogRng { inner: live.rng.clone(), log: Vec::new() };
        let r = catch_unwind(AssertUnwindSafe(|| update(&mut live.env, &mut lr)));
        if r.is_err() {
            writeln!(w, "O update PANIC").unwrap();
            writeln!(w, "I r=PANIC sh=ok perm=- rngck=1 n=0").unwrap();
            return;
        }
        live.rng = lr.inner.clone();
        // the sampler table
        let mut smp: Vec<String> = Vec::new();
        for (st, is64) in lr.log.iter() {
            if !*is64 { continue; }
            let mut c = CountRng { inner: st.clone(), n: 0, only64: true };
            let v: f64 = dist.sample(&mut c);
            let key = st.clone().next_u64();
            smp.push(format!("{}:{}:{}:{}", key, v.to_bits(), c.n, if c.only64 { 1 } else { 0 }));
        }
        let rng_after = live.rng.clone().next_u64();
        writeln!(w, "O update rng={} th={} smp={}", rng_after, th, if smp.is_empty() { "-".to_string() } else { smp.join(",") }).unwrap();
        writeln!(w, "I {}", live.obs("u", "ok", "-", "1")).unwrap();
        emit(&mut live, &EOp::Step, w);
    }
}

/// `agent-exact --seed S --n N [--kind N|M]`
pub fn agent_exact(seed: u64, n: usize, only: Option<char>) {
    let stdout = std::io::stdout();
    let mut w = std::io::BufWriter::new(stdout.lock());
    for i in 0..n {
        let mut rng = Xoroshiro128StarStar::seed_from_u64(seed.wrapping_mul(0x9E3779B97F4A7C15).wrapping_add(i as u64) ^ 0xFA6E);
        // one history in eight (noise agents only) is the probability-0 corner on a zero-draw seed
        let cfg = if i % 8 == 7 && only != Some('M') { corner_xcfg(&mut rng) } else { gen_xcfg(&mut rng, only) };
        let hid = format!("ax{}-{}-{}", cfg.subject.kind, seed, i);
        let r = catch_unwind(AssertUnwindSafe(|| {
            let mut buf: Vec<u8> = Vec::new();
            if !cfg.multi {
                let env = EnvW::<10>(Env::new(0, cfg.tick, cfg.step_size, true), cfg.step_size);
                let mut agent = cfg.subject.build();
                run_x(&hid, &cfg, env, |e: &mut EnvW<10>, r: &mut LogRng| agent.update(&mut e.0, r), &mut buf);
            } else {
                let env = MEnvW::<2, 10>(MarketEnv::new(0, [cfg.tick, cfg.tick], cfg.step_size, true), cfg.step_size);
                let mut agent = cfg.subject.build_market();
                run_x(&hid, &cfg, env, |e: &mut MEnvW<2, 10>, r: &mut LogRng| agent.update(&mut e.0, r), &mut buf);
            }
            buf
        }));
        match r {
            Ok(buf) => w.write_all(&buf).unwrap(),
            Err(_) => writeln!(w, "H {} agentx env 0 0 1 1 1 10 agent=X bits=-\nI r=PANIC sh=ok perm=- rngck=1 n=0", hid).unwrap(),
        }
    }
}
