//! Ties for the `f64` model (`Model/F64.lean`) and the float-exact agent models.
//!
//! `f64_ops`: the hardware's `+ - * /`, `floor`, `ceil` on seeded operand pairs (`FO` lines); the
//! Lean driver recomputes each with `F64.rnd` over exact rationals and compares bit patterns.

use rand::{Rng, SeedableRng};
use rand_xoshiro::Xoroshiro128StarStar;

fn gen_f64(rng: &mut Xoroshiro128StarStar) -> f64 {
    match rng.gen_range(0..12) {
        // arbitrary bit patterns (NaNs, infinities, subnormals, huge and tiny magnitudes)
        0 => f64::from_bits(rng.gen::<u64>()),
        // prices and half prices
        1 => rng.gen_range(0..=u32::MAX) as f64,
        2 => rng.gen_range(0..=2 * (u32::MAX as u64)) as f64 / 2.0,
        3 => rng.gen_range(1..11) as f64,
        // typical samples
        4 => rng.gen::<f64>() * 100.0,
        5 => (rng.gen::<f64>() * 40.0 - 20.0).exp(),
        6 => -(rng.gen::<f64>() * 40.0 - 20.0).exp(),
        // uniform draws and probabilities
        7 => rng.gen::<f64>(),
        // near the ends of the format
        8 => f64::from_bits(rng.gen_range(0..(1u64 << 54))),
        9 => f64::from_bits(0x7fe0_0000_0000_0000 + rng.gen_range(0..(1u64 << 53))),
        // integers around 2^53, small integers of either sign
        10 => (rng.gen_range(-(1i64 << 54)..(1i64 << 54))) as f64,
        _ => rng.gen_range(-40i64..40) as f64,
    }
}

/// `f64-ops --seed S --n N`
pub fn f64_ops(seed: u64, n: usize) {
    let mut rng = Xoroshiro128StarStar::seed_from_u64(seed ^ 0xf64f64);
    for i in 0..n {
        let a = gen_f64(&mut rng);
        // half of the second operands are close to the first (cancellation, quotients near 1)
        let b = if rng.gen_bool(0.3) {
            f64::from_bits(a.to_bits().wrapping_add(rng.gen_range(0..64)).wrapping_sub(32))
        } else {
            gen_f64(&mut rng)
        };
        let (op, r) = match rng.gen_range(0..6) {
            0 => ("add", a + b),
            1 => ("sub", a - b),
            2 => ("mul", a * b),
            3 => ("div", a / b),
            4 => ("floor", a.floor()),
            _ => ("ceil", a.ceil()),
        };
        // a zero divisor's sign decides the sign of the infinity; the model has one zero: skip -0.0 divisors
        if op == "div" && b == 0.0 && b.is_sign_negative() { continue; }
        println!("FO fo-{}-{} {} {} {} {}", seed, i, op, a.to_bits(), b.to_bits(), r.to_bits());
    }
}
