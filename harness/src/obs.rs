//! Canonical observation of a real `OrderBook<L>` through its public API only.

use bourse_book::types::{Order, Side, Status, Trade};
use bourse_book::OrderBook;
use std::fmt::Write;
use std::panic::{catch_unwind, AssertUnwindSafe};

pub fn side_s(s: Side) -> &'static str {
    match s {
        Side::Bid => "b",
        Side::Ask => "a",
    }
}

pub fn status_s(s: Status) -> &'static str {
    match s {
        Status::New => "N",
        Status::Active => "A",
        Status::Filled => "F",
        Status::Cancelled => "C",
        Status::Rejected => "R",
    }
}

pub fn order_s(o: &Order) -> String {
    format!(
        "{}:{}:{}:{}:{}:{}:{}:{}:{}",
        o.order_id,
        side_s(o.side),
        status_s(o.status),
        o.arr_time,
        o.end_time,
        o.vol,
        o.start_vol,
        o.price,
        o.trader_id
    )
}

pub fn trade_s(t: &Trade) -> String {
    format!(
        "{}:{}:{}:{}:{}:{}",
        t.t,
        side_s(t.side),
        t.price,
        t.vol,
        t.active_order_id,
        t.passive_order_id
    )
}

pub fn levels_s(l: &[(u32, u32)]) -> String {
    if l.is_empty() {
        return "-".to_string();
    }
    l.iter()
        .map(|(v, n)| format!("{}:{}", v, n))
        .collect::<Vec<_>>()
        .join(";")
}

/// `2 * mid_price()` as an integer; `X` if the call panics, `F<bits>` if not integral.
pub fn mid2_s<const L: usize>(book: &OrderBook<L>) -> String {
    match catch_unwind(AssertUnwindSafe(|| book.mid_price())) {
        Ok(m) => {
            let d = m * 2.0;
            if d.is_finite() && d >= 0.0 && d.fract() == 0.0 && d < 1.0e19 {
                format!("{}", d as u64)
            } else {
                format!("F{:016x}", m.to_bits())
            }
        }
        Err(_) => "X".to_string(),
    }
}

/// The observation tokens (everything after `r=<res>`).
pub fn observe<const L: usize>(book: &OrderBook<L>, trading: bool) -> String {
    let mut s = String::with_capacity(512);
    let (bid, ask) = book.bid_ask();
    let bb = book.bid_best_vol_and_orders();
    let ab = book.ask_best_vol_and_orders();
    let l1 = book.level_1_data();
    let l2 = book.level_2_data();
    write!(
        s,
        "t={} tr={} tv={} ba={},{} v={},{} bb={},{} ab={},{} bv={},{} bl={} al={} ",
        book.get_time(),
        // the trading flag has no getter: the harness reports the flag it requested; a
        // book whose real flag differs shows it in its behaviour on the following operations
        if trading { 1 } else { 0 },
        book.get_trade_vol(),
        bid,
        ask,
        book.bid_vol(),
        book.ask_vol(),
        bb.0,
        bb.1,
        ab.0,
        ab.1,
        book.bid_best_vol(),
        book.ask_best_vol(),
        levels_s(&book.bid_levels()),
        levels_s(&book.ask_levels()),
    )
    .unwrap();
    write!(
        s,
        "l1={},{},{},{},{},{},{},{} l2={},{},{},{}/{}/{} mid2={} ",
        l1.bid_price,
        l1.ask_price,
        l1.bid_vol,
        l1.ask_vol,
        l1.bid_touch_vol,
        l1.ask_touch_vol,
        l1.bid_touch_orders,
        l1.ask_touch_orders,
        l2.bid_price,
        l2.ask_price,
        l2.bid_vol,
        l2.ask_vol,
        levels_s(&l2.bid_price_levels),
        levels_s(&l2.ask_price_levels),
        mid2_s(book),
    )
    .unwrap();
    let orders = book.get_orders();
    if orders.is_empty() {
        s.push_str("o=- ");
    } else {
        s.push_str("o=");
        for (i, o) in orders.iter().enumerate() {
            if i > 0 {
                s.push(';');
            }
            s.push_str(&order_s(o));
        }
        s.push(' ');
    }
    let trades = book.get_trades();
    if trades.is_empty() {
        s.push_str("x=-");
    } else {
        s.push_str("x=");
        for (i, t) in trades.iter().enumerate() {
            if i > 0 {
                s.push(';');
            }
            s.push_str(&trade_s(t));
        }
    }
    s.push_str(" hs=");
    s.push_str(&hidden_s(book));
    s
}

/// An observation without its `hs=` token: what the getters show. The lock-step comparisons between two *real* books
/// (a reloaded book and its original, an environment's book and its stand-alone shadow) use this: the properties they
/// decide speak of what a client can see and of all later behaviour, not of the numbering of internal stamps. The
/// snapshot-only state is compared with the model's (`K`) and judged by C10's own clause.
pub fn visible(s: &str) -> &str {
    s.rsplit_once(" hs=").map(|x| x.0).unwrap_or(s)
}

/// The part of the book's state that no getter shows but every snapshot carries: the next queue stamp, the
/// trading flag and each order record's queue key. Read from the book's own `Serialize` output:
/// `<queue_stamp>/<trading 0|1>/<side:price-key:stamp;...>` (`?` if the snapshot has another form).
pub fn hidden_s<const L: usize>(book: &OrderBook<L>) -> String {
    let v = match serde_json::to_value(book) {
        Ok(v) => v,
        Err(_) => return "?".to_string(),
    };
    let qs = match v.get("queue_stamp").and_then(|x| x.as_u64()) { Some(x) => x, None => return "?".to_string() };
    let tr = match v.get("trading").and_then(|x| x.as_bool()) { Some(x) => x, None => return "?".to_string() };
    let orders = match v.get("orders").and_then(|x| x.as_array()) { Some(x) => x, None => return "?".to_string() };
    let mut s = format!("{}/{}/", qs, if tr { 1 } else { 0 });
    if orders.is_empty() {
        s.push('-');
    }
    for (i, e) in orders.iter().enumerate() {
        let k = match e.get("key").and_then(|x| x.as_array()) { Some(k) if k.len() == 3 => k, _ => return "?".to_string() };
        let sd = match k[0].as_str() { Some("Bid") => "b", Some("Ask") => "a", _ => return "?".to_string() };
        let (pk, st) = match (k[1].as_u64(), k[2].as_u64()) { (Some(a), Some(b)) => (a, b), _ => return "?".to_string() };
        if i > 0 {
            s.push(';');
        }
        write!(s, "{}:{}:{}", sd, pk, st).unwrap();
    }
    s
}
