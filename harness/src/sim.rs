//! Whole simulations with the REAL runners, agents and derive macros (C09, C16, C17, C20).

use crate::envdrive::{EnvLike, EnvW, MEnvW};
use crate::obs::observe;
use bourse_de::agents::{
    Agent, AgentSet, MarketAgent, MarketAgentSet, MomentumAgent, MomentumMarketAgent, MomentumParams, NoiseAgent,
    NoiseAgentParams, NoiseMarketAgent, RandomAgents, RandomMarketAgents,
};
use bourse_de::{Env, MarketEnv};
use rand::RngCore;

/// One agent of any built-in type (single-asset).
pub enum AnyAgent {
    None,
    Random(RandomAgents),
    Noise(NoiseAgent),
    Momentum(MomentumAgent),
}

impl Agent for AnyAgent {
    fn update<R: RngCore>(&mut self, env: &mut Env, rng: &mut R) {
        match self {
            AnyAgent::None => {}
            AnyAgent::Random(a) => a.update(env, rng),
            AnyAgent::Noise(a) => a.update(env, rng),
            AnyAgent::Momentum(a) => a.update(env, rng),
        }
    }
}

pub enum AnyMarketAgent {
    None,
    Random(RandomMarketAgents),
    Noise(NoiseMarketAgent),
    Momentum(MomentumMarketAgent),
}

impl MarketAgent for AnyMarketAgent {
    fn update<R: RngCore, const M: usize, const N: usize>(&mut self, env: &mut MarketEnv<M, N>, rng: &mut R) {
        match self {
            AnyMarketAgent::None => {}
            AnyMarketAgent::Random(a) => a.update(env, rng),
            AnyMarketAgent::Noise(a) => a.update(env, rng),
            AnyMarketAgent::Momentum(a) => a.update(env, rng),
        }
    }
}

/// Compositions are built THROUGH THE DERIVE MACROS: four slots, unused ones are `None`.
#[derive(AgentSet)]
pub struct Set4 {
    pub a: AnyAgent,
    pub b: AnyAgent,
    pub c: AnyAgent,
    pub d: AnyAgent,
}

#[derive(MarketAgentSet)]
pub struct MSet4 {
    pub a: AnyMarketAgent,
    pub b: AnyMarketAgent,
    pub c: AnyMarketAgent,
    pub d: AnyMarketAgent,
}

/// The hand-written equivalents (used to cross-check the derived sets).
pub struct Hand4(pub Set4);
impl AgentSet for Hand4 {
    fn update<R: RngCore>(&mut self, env: &mut Env, rng: &mut R) {
        self.0.a.update(env, rng);
        self.0.b.update(env, rng);
        self.0.c.update(env, rng);
        self.0.d.update(env, rng);
    }
}
pub struct MHand4(pub MSet4);
impl MarketAgentSet for MHand4 {
    fn update<R: RngCore, const M: usize, const N: usize>(&mut self, env: &mut MarketEnv<M, N>, rng: &mut R) {
        self.0.a.update(env, rng);
        self.0.b.update(env, rng);
        self.0.c.update(env, rng);
        self.0.d.update(env, rng);
    }
}

/// Agent specification (text form shared with the Lean driver).
///   R:<n>:<tick_lo>:<tick_hi>:<vol_lo>:<vol_hi>:<tick_size>:<rate_num>/<rate_den>      RandomAgents
///   N:<start>:<n>:<tick>:<p_limit>:<p_market>:<p_cancel>:<vol>:<mu>:<sigma>            NoiseAgent (probabilities as num/den)
///   M:<start>:<n>:<tick>:<p_cancel>:<vol>:<decay>:<demand>:<scale>:<ratio>:<mu>:<sigma> MomentumAgent
/// For multi-asset environments the asset index follows the letter: `R@1:...`.
#[derive(Clone, Debug)]
pub struct AgentSpec {
    pub kind: char,
    pub asset: usize,
    pub f: Vec<String>,
}

pub fn frac(s: &str) -> f64 {
    match s.split_once('/') {
        Some((a, b)) => a.parse::<f64>().unwrap() / b.parse::<f64>().unwrap(),
        None => s.parse().unwrap(),
    }
}

impl AgentSpec {
    pub fn parse(s: &str) -> Option<AgentSpec> {
        let mut it = s.split(':');
        let head = it.next()?;
        let (kind, asset) = match head.split_once('@') {
            Some((k, a)) => (k.chars().next()?, a.parse().ok()?),
            None => (head.chars().next()?, 0),
        };
        Some(AgentSpec { kind, asset, f: it.map(|x| x.to_string()).collect() })
    }
    fn u<T: std::str::FromStr>(&self, i: usize) -> T
    where
        T::Err: std::fmt::Debug,
    {
        self.f[i].parse().unwrap()
    }
    pub fn noise_params(&self) -> NoiseAgentParams {
        NoiseAgentParams {
            tick_size: self.u(2),
            p_limit: frac(&self.f[3]) as f32,
            p_market: frac(&self.f[4]) as f32,
            p_cancel: frac(&self.f[5]) as f32,
            trade_vol: self.u(6),
            price_dist_mu: frac(&self.f[7]),
            price_dist_sigma: frac(&self.f[8]),
        }
    }
    pub fn momentum_params(&self) -> MomentumParams {
        MomentumParams {
            tick_size: self.u(2),
            p_cancel: frac(&self.f[3]) as f32,
            trade_vol: self.u(4),
            decay: frac(&self.f[5]),
            demand: frac(&self.f[6]),
            scale: frac(&self.f[7]),
            order_ratio: frac(&self.f[8]),
            price_dist_mu: frac(&self.f[9]),
            price_dist_sigma: frac(&self.f[10]),
        }
    }
    pub fn build(&self) -> AnyAgent {
        match self.kind {
            'R' => AnyAgent::Random(RandomAgents::new(self.u(0), (self.u(1), self.u(2)), (self.u(3), self.u(4)), self.u(5), frac(&self.f[6]) as f32)),
            'N' => AnyAgent::Noise(NoiseAgent::new(self.u(0), self.u(1), self.noise_params())),
            'M' => AnyAgent::Momentum(MomentumAgent::new(self.u(0), self.u(1), self.momentum_params())),
            _ => AnyAgent::None,
        }
    }
    pub fn build_market(&self) -> AnyMarketAgent {
        match self.kind {
            'R' => AnyMarketAgent::Random(RandomMarketAgents::new(self.asset, self.u(0), (self.u(1), self.u(2)), (self.u(3), self.u(4)), self.u(5), frac(&self.f[6]) as f32)),
            'N' => AnyMarketAgent::Noise(NoiseMarketAgent::new(self.asset, self.u(0), self.u(1), self.noise_params())),
            'M' => AnyMarketAgent::Momentum(MomentumMarketAgent::new(self.u(0), self.u(1), self.asset, self.momentum_params())),
            _ => AnyMarketAgent::None,
        }
    }
    /// trader id range [lo, hi) of this agent
    pub fn traders(&self) -> (u32, u32) {
        match self.kind {
            'R' => (0, self.u::<u32>(0)),
            _ => (self.u::<u32>(0), self.u::<u32>(0) + self.u::<u32>(1)),
        }
    }
}

pub fn build_set(specs: &[AgentSpec]) -> Set4 {
    let mut v: Vec<AnyAgent> = specs.iter().map(|s| s.build()).collect();
    while v.len() < 4 {
        v.push(AnyAgent::None);
    }
    let d = v.pop().unwrap();
    let c = v.pop().unwrap();
    let b = v.pop().unwrap();
    let a = v.pop().unwrap();
    Set4 { a, b, c, d }
}

pub fn build_mset(specs: &[AgentSpec]) -> MSet4 {
    let mut v: Vec<AnyMarketAgent> = specs.iter().map(|s| s.build_market()).collect();
    while v.len() < 4 {
        v.push(AnyMarketAgent::None);
    }
    let d = v.pop().unwrap();
    let c = v.pop().unwrap();
    let b = v.pop().unwrap();
    let a = v.pop().unwrap();
    MSet4 { a, b, c, d }
}

/// `sim <seed> <t0> <ticks> <step> <trading> <steps> <agent>*`
#[derive(Clone, Debug)]
pub struct SimSpec {
    pub seed: u64,
    pub t0: u64,
    pub ticks: Vec<u32>,
    pub step: u64,
    pub trading: bool,
    pub steps: u64,
    pub multi: bool,
    pub agents: Vec<AgentSpec>,
}

impl SimSpec {
    pub fn parse(t: &[&str]) -> Option<SimSpec> {
        if t.len() < 7 {
            return None;
        }
        Some(SimSpec {
            multi: t[0] == "msim",
            seed: t[1].parse().ok()?,
            t0: t[2].parse().ok()?,
            ticks: t[3].split(',').filter_map(|x| x.parse().ok()).collect(),
            step: t[4].parse().ok()?,
            trading: t[5] == "1",
            steps: t[6].parse().ok()?,
            agents: t[7..].iter().filter_map(|s| AgentSpec::parse(s)).collect(),
        })
    }
    pub fn line(&self) -> String {
        let mut s = format!("{} {} {} {} {} {} {}", if self.multi { "msim" } else { "sim" }, self.seed, self.t0,
            self.ticks.iter().map(|x| x.to_string()).collect::<Vec<_>>().join(","), self.step, if self.trading { 1 } else { 0 }, self.steps);
        for a in &self.agents {
            s.push(' ');
            s.push(a.kind);
            if self.multi {
                s.push_str(&format!("@{}", a.asset));
            }
            for f in &a.f {
                s.push(':');
                s.push_str(f);
            }
        }
        s
    }
}

pub fn env_obs_line<const L: usize, E: EnvLike<L>>(env: &E, trading: bool) -> String {
    let mut s = format!("r=u sh=ok perm=- rngck=1 n={}", env.n_assets());
    for a in 0..env.n_assets() {
        s.push_str(" | ");
        s.push_str(&observe(env.book(a), trading));
        s.push_str(" | ");
        s.push_str(&crate::envdrive::env_part_pub(env, a));
    }
    s
}

/// Run the REAL runner; returns the final observation line (or PANIC).
pub fn run_sim(spec: &SimSpec, progress: bool, handwritten: bool) -> String {
    let r = std::panic::catch_unwind(|| {
        if !spec.multi {
            let mut env: Env = Env::new(spec.t0, spec.ticks[0], spec.step, spec.trading);
            if handwritten {
                let mut set = Hand4(build_set(&spec.agents));
                bourse_de::sim_runner(&mut env, &mut set, spec.seed, spec.steps, progress);
            } else {
                let mut set = build_set(&spec.agents);
                bourse_de::sim_runner(&mut env, &mut set, spec.seed, spec.steps, progress);
            }
            env_obs_line(&EnvW::<10>(env, spec.step), spec.trading)
        } else {
            macro_rules! go {
                ($a:literal) => {{
                    let ticks: [u32; $a] = std::array::from_fn(|i| spec.ticks[i]);
                    let mut env: MarketEnv<$a, 10> = MarketEnv::new(spec.t0, ticks, spec.step, spec.trading);
                    if handwritten {
                        let mut set = MHand4(build_mset(&spec.agents));
                        bourse_de::market_sim_runner(&mut env, &mut set, spec.seed, spec.steps, progress);
                    } else {
                        let mut set = build_mset(&spec.agents);
                        bourse_de::market_sim_runner(&mut env, &mut set, spec.seed, spec.steps, progress);
                    }
                    env_obs_line(&MEnvW::<$a, 10>(env, spec.step), spec.trading)
                }};
            }
            match spec.ticks.len() {
                1 => go!(1),
                2 => go!(2),
                3 => go!(3),
                _ => panic!("unsupported asset count"),
            }
        }
    });
    match r {
        Ok(s) => s,
        Err(_) => "r=PANIC sh=ok perm=- rngck=1 n=0".to_string(),
    }
}

/// The documented meaning of the runners, spelled out: one generator seeded with `seed_from_u64(seed)`,
/// and for every step `agents.update(env, rng); env.step(rng)` — nothing else. The real runner must
/// produce exactly this run (C09: "all randomness is drawn from the seeded generator handed to the
/// agents and the environment").
pub fn run_sim_manual(spec: &SimSpec) -> String {
    use bourse_de::agents::{AgentSet, MarketAgentSet};
    use rand::SeedableRng;
    use rand_xoshiro::Xoroshiro128StarStar;
    let r = std::panic::catch_unwind(|| {
        let mut rng = Xoroshiro128StarStar::seed_from_u64(spec.seed);
        if !spec.multi {
            let mut env: Env = Env::new(spec.t0, spec.ticks[0], spec.step, spec.trading);
            let mut set = build_set(&spec.agents);
            for _ in 0..spec.steps {
                set.update(&mut env, &mut rng);
                env.step(&mut rng);
            }
            env_obs_line(&EnvW::<10>(env, spec.step), spec.trading)
        } else {
            macro_rules! go {
                ($a:literal) => {{
                    let ticks: [u32; $a] = std::array::from_fn(|i| spec.ticks[i]);
                    let mut env: MarketEnv<$a, 10> = MarketEnv::new(spec.t0, ticks, spec.step, spec.trading);
                    let mut set = build_mset(&spec.agents);
                    for _ in 0..spec.steps {
                        set.update(&mut env, &mut rng);
                        env.step(&mut rng);
                    }
                    env_obs_line(&MEnvW::<$a, 10>(env, spec.step), spec.trading)
                }};
            }
            match spec.ticks.len() {
                1 => go!(1),
                2 => go!(2),
                3 => go!(3),
                _ => panic!("unsupported asset count"),
            }
        }
    });
    match r {
        Ok(s) => s,
        Err(_) => "r=PANIC sh=ok perm=- rngck=1 n=0".to_string(),
    }
}

/// The documented loop again, but the environment and the agent set are MOVED in memory between steps (onto the
/// heap and back, into vectors that reallocate): nothing but (seed, parameters, agents) may influence the run.
pub fn run_sim_moved(spec: &SimSpec) -> String {
    use bourse_de::agents::{AgentSet, MarketAgentSet};
    use rand::SeedableRng;
    use rand_xoshiro::Xoroshiro128StarStar;
    let r = std::panic::catch_unwind(|| {
        let mut rng = Xoroshiro128StarStar::seed_from_u64(spec.seed);
        if !spec.multi {
            let mut env: Env = Env::new(spec.t0, spec.ticks[0], spec.step, spec.trading);
            let mut set = build_set(&spec.agents);
            for k in 0..spec.steps {
                match k % 3 {
                    0 => {
                        let mut be = Box::new(env);
                        let mut bs = Box::new(set);
                        bs.update(&mut be, &mut rng);
                        be.step(&mut rng);
                        env = *be;
                        set = *bs;
                    }
                    1 => {
                        let mut v = vec![env];
                        v.reserve(4);
                        set.update(&mut v[0], &mut rng);
                        v[0].step(&mut rng);
                        env = v.pop().unwrap();
                    }
                    _ => {
                        set.update(&mut env, &mut rng);
                        env.step(&mut rng);
                    }
                }
            }
            env_obs_line(&EnvW::<10>(env, spec.step), spec.trading)
        } else {
            macro_rules! go {
                ($a:literal) => {{
                    let ticks: [u32; $a] = std::array::from_fn(|i| spec.ticks[i]);
                    let mut env: MarketEnv<$a, 10> = MarketEnv::new(spec.t0, ticks, spec.step, spec.trading);
                    let mut set = build_mset(&spec.agents);
                    for k in 0..spec.steps {
                        if k % 2 == 0 {
                            let mut be = Box::new(env);
                            let mut bs = Box::new(set);
                            bs.update(&mut be, &mut rng);
                            be.step(&mut rng);
                            env = *be;
                            set = *bs;
                        } else {
                            set.update(&mut env, &mut rng);
                            env.step(&mut rng);
                        }
                    }
                    env_obs_line(&MEnvW::<$a, 10>(env, spec.step), spec.trading)
                }};
            }
            match spec.ticks.len() {
                1 => go!(1),
                2 => go!(2),
                3 => go!(3),
                _ => panic!("unsupported asset count"),
            }
        }
    });
    match r {
        Ok(s) => s,
        Err(_) => "r=PANIC sh=ok perm=- rngck=1 n=0".to_string(),
    }
}

pub fn fnv64(s: &str) -> u64 {
    let mut h: u64 = 0xcbf29ce484222325;
    for b in s.as_bytes() {
        h ^= *b as u64;
        h = h.wrapping_mul(0x100000001b3);
    }
    h
}
