//! Runs market- and environment-level histories on the REAL `Market<A, L>`, `Env<L>` and
//! `MarketEnv<A, L>` and prints the stream (`H` / `O` / `I` lines) consumed by the Lean driver.
//!
//! Besides the observations, the harness keeps stand-alone real `OrderBook<L>` shadows, one per
//! asset, fed the same instructions at the same times (for an environment step: replayed in the
//! order given by the real `shuffle` applied with a clone of the generator). `sh=` reports
//! whether every asset's book equals its shadow — the model-free oracle of C08 and C14.

use crate::obs::{levels_s, observe, visible};
use crate::proto::{opt, side_of, Ev};
use bourse_book::types::Level2Data;
use bourse_book::{Market, OrderBook, OrderError};
use bourse_de::{Env, Level2DataRecords, MarketEnv};
use rand::seq::SliceRandom;
use rand::{Rng, RngCore};
use rand_xoshiro::rand_core::SeedableRng;
use rand_xoshiro::Xoroshiro128StarStar;
use std::io::Write;
use std::panic::{catch_unwind, AssertUnwindSafe};

#[derive(Clone, Debug)]
pub enum EOp {
    Submit(usize, bool, u32, u32, Option<u32>),
    QCancel(usize, usize),
    QModify(usize, usize, Option<u32>, Option<u32>),
    Step,
    Trading(bool),
}

impl EOp {
    pub fn line(&self) -> String {
        match self {
            EOp::Submit(a, s, v, t, p) => format!("submit {} {} {} {} {}", a, if *s { "b" } else { "a" }, v, t, opt(p)),
            EOp::QCancel(a, i) => format!("qcancel {} {}", a, i),
            EOp::QModify(a, i, p, v) => format!("qmodify {} {} {} {}", a, i, opt(p), opt(v)),
            EOp::Step => "step".into(),
            EOp::Trading(b) => format!("trading {}", if *b { 1 } else { 0 }),
        }
    }
    pub fn parse(t: &[&str]) -> Option<EOp> {
        fn on<T: std::str::FromStr>(s: &str) -> Option<Option<T>> {
            if s == "-" { Some(None) } else { s.parse().ok().map(Some) }
        }
        match t {
            ["submit", a, s, v, tr, p] => Some(EOp::Submit(a.parse().ok()?, *s == "b", v.parse().ok()?, tr.parse().ok()?, on(p)?)),
            ["qcancel", a, i] => Some(EOp::QCancel(a.parse().ok()?, i.parse().ok()?)),
            ["qmodify", a, i, p, v] => Some(EOp::QModify(a.parse().ok()?, i.parse().ok()?, on(p)?, on(v)?)),
            ["step"] => Some(EOp::Step),
            ["trading", b] => Some(EOp::Trading(*b == "1")),
            _ => None,
        }
    }
}

/// What the harness needs from either environment type.
pub trait EnvLike<const L: usize> {
    fn n_assets(&self) -> usize;
    fn submit(&mut self, a: usize, bid: bool, vol: u32, tr: u32, p: Option<u32>) -> Result<usize, OrderError>;
    fn qcancel(&mut self, a: usize, id: usize);
    fn qmodify(&mut self, a: usize, id: usize, p: Option<u32>, v: Option<u32>);
    fn do_step<R: RngCore>(&mut self, rng: &mut R);
    fn trading(&mut self, on: bool);
    fn book(&self, a: usize) -> &OrderBook<L>;
    fn cached(&self, a: usize) -> &Level2Data<L>;
    fn records(&self, a: usize) -> &Level2DataRecords<L>;
    fn trade_vols(&self, a: usize) -> &Vec<u32>;
    /// the convenience getters agree with the record structure (prices, volumes, touch series)
    fn getters_ok(&self, a: usize) -> bool;
    fn step_size(&self) -> u64;
}

pub struct EnvW<const L: usize>(pub Env<L>, pub u64);
pub struct MEnvW<const A: usize, const L: usize>(pub MarketEnv<A, L>, pub u64);

impl<const L: usize> EnvLike<L> for EnvW<L> {
    fn n_assets(&self) -> usize { 1 }
    fn submit(&mut self, _a: usize, bid: bool, vol: u32, tr: u32, p: Option<u32>) -> Result<usize, OrderError> {
        self.0.place_order(side_of(bid), vol, tr, p)
    }
    fn qcancel(&mut self, _a: usize, id: usize) { self.0.cancel_order(id) }
    fn qmodify(&mut self, _a: usize, id: usize, p: Option<u32>, v: Option<u32>) { self.0.modify_order(id, p, v) }
    fn do_step<R: RngCore>(&mut self, rng: &mut R) { self.0.step(rng) }
    fn trading(&mut self, on: bool) { if on { let _ = self.0.enable_trading(); } else { let _ = self.0.disable_trading(); } }
    fn book(&self, _a: usize) -> &OrderBook<L> { self.0.get_orderbook() }
    fn cached(&self, _a: usize) -> &Level2Data<L> { self.0.level_2_data() }
    fn records(&self, _a: usize) -> &Level2DataRecords<L> { self.0.get_level_2_data_history() }
    fn trade_vols(&self, _a: usize) -> &Vec<u32> { self.0.get_trade_vols() }
    fn getters_ok(&self, _a: usize) -> bool {
        let r = self.0.get_level_2_data_history();
        let tv = self.0.get_touch_volumes();
        let tc = self.0.get_touch_order_counts();
        let orders_same = {
            let a = self.0.get_orders();
            let b = self.0.get_orderbook().get_orders();
            a.len() == b.len() && a.iter().zip(b.iter()).all(|(x, y)| std::ptr::eq(*x, *y))
                && (0..a.len()).all(|i| std::ptr::eq(self.0.order(i), a[i]) && self.0.order_status(i) == a[i].status)
        };
        *self.0.get_prices() == r.prices
            && *self.0.get_volumes() == r.volumes
            && *tv.0 == r.volumes_at_levels.0[0] && *tv.1 == r.volumes_at_levels.1[0]
            && *tc.0 == r.orders_at_levels.0[0] && *tc.1 == r.orders_at_levels.1[0]
            && orders_same
            && self.0.get_trades().len() == self.0.get_orderbook().get_trades().len()
    }
    fn step_size(&self) -> u64 { self.1 }
}

impl<const A: usize, const L: usize> EnvLike<L> for MEnvW<A, L> {
    fn n_assets(&self) -> usize { A }
    fn submit(&mut self, a: usize, bid: bool, vol: u32, tr: u32, p: Option<u32>) -> Result<usize, OrderError> {
        self.0.place_order(a, side_of(bid), vol, tr, p).map(|(aa, id)| { assert_eq!(aa, a, "asset echoed"); id })
    }
    fn qcancel(&mut self, a: usize, id: usize) { self.0.cancel_order((a, id)) }
    fn qmodify(&mut self, a: usize, id: usize, p: Option<u32>, v: Option<u32>) { self.0.modify_order((a, id), p, v) }
    fn do_step<R: RngCore>(&mut self, rng: &mut R) { self.0.step(rng) }
    fn trading(&mut self, on: bool) { if on { let _ = self.0.enable_trading(); } else { let _ = self.0.disable_trading(); } }
    fn book(&self, a: usize) -> &OrderBook<L> { self.0.get_market().get_order_book(a) }
    fn cached(&self, a: usize) -> &Level2Data<L> { &self.0.level_2_data()[a] }
    fn records(&self, a: usize) -> &Level2DataRecords<L> { self.0.get_level_2_data_history(a) }
    fn trade_vols(&self, a: usize) -> &Vec<u32> { self.0.get_trade_vols(a) }
    fn getters_ok(&self, a: usize) -> bool {
        let r = self.0.get_level_2_data_history(a);
        let tv = self.0.get_touch_volumes(a);
        let tc = self.0.get_touch_order_counts(a);
        let orders_same = {
            let x = self.0.get_orders(a);
            let y = self.0.get_market().get_order_book(a).get_orders();
            x.len() == y.len() && x.iter().zip(y.iter()).all(|(p, q)| std::ptr::eq(*p, *q))
        };
        *self.0.get_prices(a) == r.prices
            && *self.0.get_volumes(a) == r.volumes
            && *tv.0 == r.volumes_at_levels.0[0] && *tv.1 == r.volumes_at_levels.1[0]
            && *tc.0 == r.orders_at_levels.0[0] && *tc.1 == r.orders_at_levels.1[0]
            && orders_same
            && std::ptr::eq(self.0.get_trades(a), self.0.get_market().get_order_book(a).get_trades())
    }
    fn step_size(&self) -> u64 { self.1 }
}

fn series<T: std::fmt::Display>(v: &[T]) -> String {
    if v.is_empty() { "-".into() } else { v.iter().map(|x| x.to_string()).collect::<Vec<_>>().join(",") }
}
fn series2<T: std::fmt::Display>(v: &[Vec<T>]) -> String {
    if v.is_empty() { "-".into() } else { v.iter().map(|s| series(s)).collect::<Vec<_>>().join(":") }
}

fn l2_s<const L: usize>(l: &Level2Data<L>) -> String {
    format!("{},{},{},{}/{}/{}", l.bid_price, l.ask_price, l.bid_vol, l.ask_vol,
        levels_s(&l.bid_price_levels), levels_s(&l.ask_price_levels))
}

pub fn env_part_pub<const L: usize, E: EnvLike<L>>(e: &E, a: usize) -> String { env_part(e, a) }

fn env_part<const L: usize, E: EnvLike<L>>(e: &E, a: usize) -> String {
    let r = e.records(a);
    format!("E c2={} bp={} ap={} bv={} av={} bva={} boa={} ava={} aoa={} tvs={} g={}",
        l2_s(e.cached(a)), series(&r.prices.0), series(&r.prices.1), series(&r.volumes.0), series(&r.volumes.1),
        series2(&r.volumes_at_levels.0), series2(&r.orders_at_levels.0),
        series2(&r.volumes_at_levels.1), series2(&r.orders_at_levels.1),
        series(e.trade_vols(a)), if e.getters_ok(a) { 1 } else { 0 })
}

pub struct EnvLive<const L: usize, E: EnvLike<L>> {
    pub env: E,
    pub rng: Xoroshiro128StarStar,
    pub shadows: Vec<OrderBook<L>>,
    pub queue: Vec<(usize, Ev)>,
    pub trading: bool,
    pub dead: bool,
}

/// Long runs only look at the verdicts of the model-free oracles (`sh=`, `rngck=`): no observation text.
pub static QUIET: std::sync::atomic::AtomicBool = std::sync::atomic::AtomicBool::new(false);

impl<const L: usize, E: EnvLike<L>> EnvLive<L, E> {
    pub fn obs(&self, res: &str, sh: &str, perm: &str, rngck: &str) -> String {
        if QUIET.load(std::sync::atomic::Ordering::Relaxed) {
            return format!("r={} sh={} perm=- rngck={} n=0", res, sh, rngck);
        }
        let mut s = format!("r={} sh={} perm={} rngck={} n={}", res, sh, perm, rngck, self.env.n_assets());
        for a in 0..self.env.n_assets() {
            s.push_str(" | ");
            s.push_str(&observe(self.env.book(a), self.trading));
            s.push_str(" | ");
            s.push_str(&env_part(&self.env, a));
        }
        s
    }

    fn shadows_equal(&self) -> bool {
        (0..self.env.n_assets()).all(|a| visible(&observe(self.env.book(a), self.trading)) == visible(&observe(&self.shadows[a], self.trading)))
    }

    pub fn step(&mut self, op: &EOp) -> String {
        let r = catch_unwind(AssertUnwindSafe(|| self.step_inner(op)));
        match r {
            Ok(s) => s,
            Err(_) => {
                self.dead = true;
                "r=PANIC sh=ok perm=- rngck=1 n=0".to_string()
            }
        }
    }

    fn step_inner(&mut self, op: &EOp) -> String {
        let mut res = "u".to_string();
        let mut perm = "-".to_string();
        let mut rngck = "1";
        match op {
            EOp::Submit(a, bid, vol, tr, p) => {
                let r = self.env.submit(*a, *bid, *vol, *tr, *p);
                let rs = self.shadows[*a].create_order(side_of(*bid), *vol, *tr, *p);
                match (r, rs) {
                    (Ok(id), Ok(ids)) => {
                        res = format!("ok:{}", id);
                        if id != ids { res = format!("ok:{}", id); }
                        self.queue.push((*a, Ev::New(id)));
                        if id != ids { return self.obs(&res, "DIVERGE", &perm, rngck); }
                    }
                    (Err(OrderError::PriceError { price, tick_size }), Err(_)) => { res = format!("err:{}:{}", price, tick_size); }
                    (Ok(id), Err(_)) => { res = format!("ok:{}", id); return self.obs(&res, "DIVERGE", &perm, rngck); }
                    (Err(OrderError::PriceError { price, tick_size }), Ok(_)) => {
                        res = format!("err:{}:{}", price, tick_size);
                        return self.obs(&res, "DIVERGE", &perm, rngck);
                    }
                }
            }
            EOp::QCancel(a, id) => { self.env.qcancel(*a, *id); self.queue.push((*a, Ev::Cancel(*id))); }
            EOp::QModify(a, id, p, v) => { self.env.qmodify(*a, *id, *p, *v); self.queue.push((*a, Ev::Modify(*id, *p, *v))); }
            EOp::Trading(b) => {
                self.env.trading(*b);
                for s in self.shadows.iter_mut() { if *b { let _ = s.enable_trading(); } else { let _ = s.disable_trading(); } }
                self.trading = *b;
            }
            EOp::Step => {
                // the schedule the real `shuffle` produces from this generator state
                let mut g2 = self.rng.clone();
                let mut idx: Vec<usize> = (0..self.queue.len()).collect();
                idx.shuffle(&mut g2);
                perm = series(&idx);
                let start = self.shadows[0].get_time();
                self.env.do_step(&mut self.rng);
                // the generator must have advanced by exactly the shuffle
                let mut c1 = self.rng.clone();
                if c1.next_u64() != g2.next_u64() { rngck = "0"; }
                // replay on the stand-alone shadows
                for s in self.shadows.iter_mut() { s.reset_trade_vol(); }
                for (i, k) in idx.iter().enumerate() {
                    for s in self.shadows.iter_mut() { s.set_time(start + i as u64); }
                    let (a, ev) = &self.queue[*k];
                    self.shadows[*a].process_event(ev.to_event());
                }
                let ss = self.env.step_size();
                for s in self.shadows.iter_mut() { s.set_time(start + ss); }
                self.queue.clear();
            }
        }
        let sh = if self.shadows_equal() { "ok" } else { "DIVERGE" };
        self.obs(&res, sh, &perm, rngck)
    }
}

#[derive(Clone)]
pub struct EnvHeader {
    pub id: String,
    pub profile: String,
    pub kind: String, // env | menv
    pub seed: u64,
    pub t0: u64,
    pub ticks: Vec<u32>,
    pub step: u64,
    pub trading: bool,
    pub levels: usize,
}

impl EnvHeader {
    pub fn line(&self) -> String {
        format!("H {} {} {} {} {} {} {} {} {}", self.id, self.profile, self.kind, self.seed, self.t0,
            self.ticks.iter().map(|t| t.to_string()).collect::<Vec<_>>().join(","), self.step,
            if self.trading { 1 } else { 0 }, self.levels)
    }
    pub fn parse(t: &[&str]) -> Option<EnvHeader> {
        match t {
            ["H", id, profile, kind, seed, t0, ticks, step, trading, l] if *kind == "env" || *kind == "menv" => Some(EnvHeader {
                id: id.to_string(), profile: profile.to_string(), kind: kind.to_string(), seed: seed.parse().ok()?,
                t0: t0.parse().ok()?, ticks: ticks.split(',').filter_map(|x| x.parse().ok()).collect(),
                step: step.parse().ok()?, trading: *trading == "1", levels: l.parse().ok()?,
            }),
            _ => None,
        }
    }
}

/// Seeded generator of environment histories.
pub struct EGen {
    pub rng: Xoroshiro128StarStar,
    pub profile: String,
    pub ticks: Vec<u32>,
    pub base: u32,
    pub n_prices: u32,
    pub vols: Vec<u32>,
    pub step: u64,
    pub trading: bool,
}

impl EGen {
    fn chance(&mut self, p: f64) -> bool { self.rng.gen::<f64>() < p }

    /// Ops up to and including the next `step`.
    pub fn next_round<const L: usize, E: EnvLike<L>>(&mut self, live: &EnvLive<L, E>) -> Vec<EOp> {
        let na = live.env.n_assets();
        let mut ops = Vec::new();
        let cap = match self.profile.as_str() {
            "overfull" => (self.step as usize) * 3 + 2,
            "unusual" => (self.step as usize * 2).min(14),
            "long" => 7,
            "empty" => 2,
            _ => (self.step as usize).min(12),
        };
        let n = if self.profile == "long" { [6usize, 6, 6, 5, 7][self.rng.gen_range(0..5)] } else if self.profile == "overfull" { self.rng.gen_range((self.step as usize + 1)..=cap) }
                else if self.chance(0.1) { 0 } else { self.rng.gen_range(0..=cap) };
        let offgrid = self.profile == "malformed" || self.profile == "py" || self.profile == "npy";
        let npy = self.profile == "npy";
        // ids known so far per asset (including ones created in this round)
        let mut counts: Vec<usize> = (0..na).map(|a| live.env.book(a).get_orders().len()).collect();
        for _ in 0..n {
            let a = self.rng.gen_range(0..na);
            let k = self.rng.gen_range(0..100);
            let tick = self.ticks[a];
            if k < 55 || counts[a] == 0 {
                let bid = self.chance(0.5);
                let mkt = !npy && self.chance(0.12);
                let mut p = (self.base + self.rng.gen_range(0..self.n_prices)) * tick;
                if offgrid && tick > 1 && self.chance(0.4) { p += self.rng.gen_range(1..tick); }
                let vi = self.rng.gen_range(0..self.vols.len());
                let v = self.vols[vi];
                let tr = self.rng.gen_range(0..5);
                let price = if mkt { None } else { Some(p) };
                if price.map_or(true, |p| p % tick == 0) { counts[a] += 1; }
                ops.push(EOp::Submit(a, bid, v, tr, price));
            } else if k < 75 {
                let id = self.rng.gen_range(0..counts[a]);
                ops.push(EOp::QCancel(a, id));
            } else if k < 97 && npy {
                let id = self.rng.gen_range(0..counts[a]);
                ops.push(EOp::QCancel(a, id));
            } else if k < 97 {
                let id = self.rng.gen_range(0..counts[a]);
                let p = if self.chance(0.5) { None } else {
                    let mut p = (self.base + self.rng.gen_range(0..self.n_prices)) * tick;
                    if offgrid && tick > 1 && self.chance(0.4) { p += self.rng.gen_range(1..tick); }
                    Some(p)
                };
                let lo = if self.profile == "unusual" || self.profile == "py" { 0 } else { 1 };
                let v = if self.chance(0.4) { None } else { Some(self.rng.gen_range(lo..12)) };
                ops.push(EOp::QModify(a, id, p, v));
            } else if self.profile == "toggle" || self.chance(0.3) {
                // one time in four the switch is requested twice in a row (the second request is redundant and must stay so)
                self.trading = !self.trading;
                ops.push(EOp::Trading(self.trading));
                if self.chance(0.25) {
                    ops.push(EOp::Trading(self.trading));
                }
            }
        }
        ops.push(EOp::Step);
        if self.chance(0.08) { ops.push(EOp::Step); }
        ops
    }
}

/// A long run judged by the model-free oracles alone: real stand-alone shadow books replaying every batch in
/// the order the real `shuffle` gives for a clone of the generator, and the generator having advanced by exactly
/// one shuffle per step. Prints one `L` line: `L <id> steps=<n> instr=<n> ok` or `... BAD:<what>@step<k>`.
/// A crowded level: more than 2^16 resting orders at one price on each side (a legal market state; narrower counters
/// than the published `u32` overflow there). Judged in the harness: after the step the recorded series, the cached
/// snapshot and the live book must agree on volumes and order counts. One `L` line.
pub fn run_env_crowd<const L: usize, E: EnvLike<L>, W: Write>(h: &EnvHeader, mut env: E, w: &mut W) {
    let mut rng = Xoroshiro128StarStar::seed_from_u64(h.seed);
    let a = env.n_assets() - 1;
    let tick = h.ticks[a % h.ticks.len()];
    let (nb, na) = (65_537u32, 70_000u32);
    let mut verdict = "ok".to_string();
    let r = catch_unwind(AssertUnwindSafe(|| {
        for _ in 0..nb { env.submit(a, true, 1, 7, Some(100 * tick)).unwrap(); }
        for _ in 0..na { env.submit(a, false, 1, 8, Some(110 * tick)).unwrap(); }
        env.do_step(&mut rng);
        env.do_step(&mut rng);
        let mut bad: Vec<&str> = Vec::new();
        let live_b = env.book(a).bid_best_vol_and_orders();
        let live_a = env.book(a).ask_best_vol_and_orders();
        if (live_b.0 as u64, live_b.1 as u64) != (nb as u64, nb as u64) || (live_a.0 as u64, live_a.1 as u64) != (na as u64, na as u64) { bad.push("record_live_book_counts_wrong"); }
        let rec = env.records(a);
        fn last<T: Copy + Into<u64>>(v: &Vec<T>) -> u64 { v.last().map(|x| (*x).into()).unwrap_or(u64::MAX) }
        if last(&rec.orders_at_levels.0[0]) != nb as u64 || last(&rec.orders_at_levels.1[0]) != na as u64 { bad.push("record_level_order_counts_entry"); }
        if last(&rec.volumes_at_levels.0[0]) != nb as u64 || last(&rec.volumes_at_levels.1[0]) != na as u64 { bad.push("record_level_volumes_entry"); }
        let c = env.cached(a);
        if (c.bid_price_levels[0].1 as u64, c.ask_price_levels[0].1 as u64) != (nb as u64, na as u64) { bad.push("cache_is_live_level2"); }
        if !env.getters_ok(a) { bad.push("record_getters_disagree"); }
        bad.join("+")
    }));
    match r {
        Ok(b) => { if !b.is_empty() { verdict = format!("BAD:{}@step1", b); } }
        Err(_) => verdict = "BAD:panic@step0".into(),
    }
    writeln!(w, "L {} steps=2 instr={} {} {}", h.id, nb + na, verdict, h.line().replace(' ', "_")).unwrap();
}

pub fn run_env_long<const L: usize, E: EnvLike<L>, W: Write>(h: &EnvHeader, env: E, g: &mut EGen, rounds: usize, w: &mut W) {
    QUIET.store(true, std::sync::atomic::Ordering::Relaxed);
    let shadows = h.ticks.iter().map(|t| OrderBook::<L>::new(h.t0, *t, h.trading)).collect();
    let mut live = EnvLive { env, rng: Xoroshiro128StarStar::seed_from_u64(h.seed), shadows, queue: Vec::new(), trading: h.trading, dead: false };
    let mut instr = 0usize;
    let mut verdict = "ok".to_string();
    'outer: for r in 0..rounds {
        let ops = g.next_round(&live);
        for op in ops.iter() {
            if !matches!(op, EOp::Step) { instr += 1; }
            let i = live.step(op);
            if live.dead { verdict = format!("BAD:panic@step{}", r); break 'outer; }
            let mut bad: Vec<&str> = Vec::new();
            if i.contains("sh=DIVERGE") { bad.push("shadow_DIVERGE"); }
            if i.contains("rngck=0") { bad.push("generator_not_advanced_by_exactly_one_shuffle"); }
            if !bad.is_empty() { verdict = format!("BAD:{}@step{}", bad.join("+"), r); break 'outer; }
        }
    }
    QUIET.store(false, std::sync::atomic::Ordering::Relaxed);
    writeln!(w, "L {} steps={} instr={} {} {}", h.id, rounds, instr, verdict, h.line().replace(' ', "_")).unwrap();
}

pub fn run_env<const L: usize, E: EnvLike<L>, W: Write>(h: &EnvHeader, env: E, g: Option<&mut EGen>, fixed: &[EOp], rounds: usize, w: &mut W) {
    writeln!(w, "{}", h.line()).unwrap();
    let shadows = h.ticks.iter().map(|t| OrderBook::<L>::new(h.t0, *t, h.trading)).collect();
    let mut live = EnvLive { env, rng: Xoroshiro128StarStar::seed_from_u64(h.seed), shadows, queue: Vec::new(), trading: h.trading, dead: false };
    writeln!(w, "I {}", live.obs("u", "ok", "-", "1")).unwrap();
    let mut emit = |live: &mut EnvLive<L, E>, op: &EOp, w: &mut W| {
        writeln!(w, "O {}", op.line()).unwrap();
        let i = live.step(op);
        writeln!(w, "I {}", i).unwrap();
    };
    match g {
        Some(g) => {
            for _ in 0..rounds {
                let ops = g.next_round(&live);
                for op in ops.iter() {
                    emit(&mut live, op, w);
                    if live.dead { return; }
                }
            }
        }
        None => {
            for op in fixed {
                emit(&mut live, op, w);
                if live.dead { return; }
            }
        }
    }
}

// ---------------------------------------------------------------------------------------------
// Market<A, L>: direct operations

use crate::bookdrive::Outcome;
use crate::proto::Op;

pub struct MarketLive<const A: usize, const L: usize> {
    pub market: Market<A, L>,
    pub shadows: Vec<OrderBook<L>>,
    pub trading: bool,
    /// the flag requested for each asset's book (market-level toggles set all, book-level ones their own)
    pub tradings: Vec<bool>,
    pub scratch: std::path::PathBuf,
    pub dead: bool,
    /// compact and pretty text of the market as it stood before the last reload
    pub last_json: Option<(String, String)>,
    pub json_done: usize,
    /// a single book's clock was moved through `get_order_book_mut(a).set_time(t)`: the books no longer share one time
    pub desync: bool,
}

#[derive(Clone, Debug)]
pub enum MOp {
    On(usize, Op),
    Time(u64),
    Trading(bool),
    ResetVol,
    Reload(String),
}

impl MOp {
    pub fn line(&self) -> String {
        match self {
            MOp::On(a, op) => format!("on {} {}", a, op.line()),
            MOp::Time(t) => format!("time {}", t),
            MOp::Trading(b) => format!("trading {}", if *b { 1 } else { 0 }),
            MOp::ResetVol => "resetvol".into(),
            MOp::Reload(m) => format!("reload {}", m),
        }
    }
    pub fn parse(t: &[&str]) -> Option<MOp> {
        match t {
            ["on", a, rest @ ..] => Some(MOp::On(a.parse().ok()?, Op::parse(rest)?)),
            ["time", x] => Some(MOp::Time(x.parse().ok()?)),
            ["trading", b] => Some(MOp::Trading(*b == "1")),
            ["resetvol"] => Some(MOp::ResetVol),
            ["reload", m] => Some(MOp::Reload(m.to_string())),
            _ => None,
        }
    }
}

fn book_apply<const L: usize>(book: &mut OrderBook<L>, op: &Op) -> Outcome {
    match op {
        Op::Create(s, v, t, p) => match book.create_order(side_of(*s), *v, *t, *p) {
            Ok(id) => Outcome::Ok(id),
            Err(OrderError::PriceError { price, tick_size }) => Outcome::Err(price, tick_size),
        },
        Op::Cap(s, v, t, p) => match book.create_and_place_order(side_of(*s), *v, *t, *p) {
            Ok(id) => Outcome::Ok(id),
            Err(OrderError::PriceError { price, tick_size }) => Outcome::Err(price, tick_size),
        },
        Op::Place(i) => { book.place_order(*i); Outcome::Unit }
        Op::Cancel(i) => { book.cancel_order(*i); Outcome::Unit }
        Op::Modify(i, p, v) => { book.modify_order(*i, *p, *v); Outcome::Unit }
        Op::Ev(e) => { book.process_event(e.to_event()); Outcome::Unit }
        _ => Outcome::Unit,
    }
}

impl<const A: usize, const L: usize> MarketLive<A, L> {
    fn market_apply(&mut self, a: usize, op: &Op) -> Outcome {
        use bourse_book::types::Event;
        let m = &mut self.market;
        let conv = |r: Result<(usize, usize), OrderError>| match r {
            Ok((aa, id)) => { if aa != a { Outcome::Ok(usize::MAX) } else { Outcome::Ok(id) } }
            Err(OrderError::PriceError { price, tick_size }) => Outcome::Err(price, tick_size),
        };
        match op {
            Op::Create(s, v, t, p) => conv(m.create_order(a, side_of(*s), *v, *t, *p)),
            Op::Cap(s, v, t, p) => conv(m.create_and_place_order(a, side_of(*s), *v, *t, *p)),
            Op::Place(i) => { m.place_order((a, *i)); Outcome::Unit }
            Op::Cancel(i) => { m.cancel_order((a, *i)); Outcome::Unit }
            Op::Modify(i, p, v) => { m.modify_order((a, *i), *p, *v); Outcome::Unit }
            Op::Ev(e) => {
                let ev = match *e {
                    Ev::New(i) => Event::New { order_id: (a, i) },
                    Ev::Cancel(i) => Event::Cancellation { order_id: (a, i) },
                    Ev::Modify(i, p, v) => Event::Modify { order_id: (a, i), new_price: p, new_vol: v },
                };
                m.process_event(ev);
                Outcome::Unit
            }
            _ => Outcome::Unit,
        }
    }

    /// all-asset queries return each asset's own values in asset order
    fn queries_ok(&self) -> Option<&'static str> {
        let m = &self.market;
        let bk = |i: usize| m.get_order_book(i);
        let t = m.get_time();
        for i in 0..A {
            if !self.desync && bk(i).get_time() != t { return Some("time"); }
            if m.bid_vols()[i] != bk(i).bid_vol() { return Some("bid_vols"); }
            if m.ask_vols()[i] != bk(i).ask_vol() { return Some("ask_vols"); }
            if m.bid_best_vols()[i] != bk(i).bid_best_vol() { return Some("bid_best_vols"); }
            if m.ask_best_vols()[i] != bk(i).ask_best_vol() { return Some("ask_best_vols"); }
            if m.bid_best_vol_and_orders()[i] != bk(i).bid_best_vol_and_orders() { return Some("bid_best_vol_and_orders"); }
            if m.ask_best_vol_and_orders()[i] != bk(i).ask_best_vol_and_orders() { return Some("ask_best_vol_and_orders"); }
            if m.bid_levels()[i] != bk(i).bid_levels() { return Some("bid_levels"); }
            if m.ask_levels()[i] != bk(i).ask_levels() { return Some("ask_levels"); }
            if m.bid_asks()[i] != bk(i).bid_ask() { return Some("bid_asks"); }
            if m.get_trade_vols()[i] != bk(i).get_trade_vol() { return Some("trade_vols"); }
            let l = &m.level_2_data()[i];
            let k = bk(i).level_2_data();
            if l2_s(l) != l2_s(&k) { return Some("level_2_data"); }
            let o = m.get_orders(i);
            let p = bk(i).get_orders();
            if o.len() != p.len() || !o.iter().zip(p.iter()).all(|(x, y)| std::ptr::eq(*x, *y)) { return Some("get_orders"); }
            for (j, oo) in p.iter().enumerate() {
                if !std::ptr::eq(m.order((i, j)), *oo) { return Some("order"); }
            }
        }
        None
    }

    fn reload(&mut self, mode: &str) -> Result<(), String> {
        self.last_json = match (serde_json::to_string(&self.market), serde_json::to_string_pretty(&self.market)) {
            (Ok(c), Ok(p)) => Some((c, p)),
            _ => None,
        };
        let reloaded: Market<A, L> = match mode {
            "mem" => {
                let s = serde_json::to_string(&self.market).map_err(|e| e.to_string())?;
                serde_json::from_str(&s).map_err(|e| e.to_string())?
            }
            _ => {
                std::fs::create_dir_all(&self.scratch).map_err(|e| e.to_string())?;
                let path = self.scratch.join("msnap.json");
                self.market.save_json(&path, mode == "pretty").map_err(|e| e.to_string())?;
                // the snapshot file is deliberately left in place: the next save overwrites it
                Market::<A, L>::load_json(&path).map_err(|e| e.to_string())?
            }
        };
        self.market = reloaded;
        Ok(())
    }

    pub fn obs(&self, res: &str, sh: &str, q: &str) -> String {
        let mut s = format!("r={} sh={} q={} n={}", res, sh, q, A);
        for a in 0..A {
            s.push_str(" | ");
            s.push_str(&observe(self.market.get_order_book(a), self.tradings[a]));
        }
        s
    }

    pub fn step(&mut self, op: &MOp) -> String {
        let r = catch_unwind(AssertUnwindSafe(|| self.step_inner(op)));
        match r {
            Ok(s) => s,
            Err(_) => { self.dead = true; "r=PANIC sh=ok q=ok n=0".to_string() }
        }
    }

    fn step_inner(&mut self, op: &MOp) -> String {
        let mut res = "u".to_string();
        let mut sh = "ok".to_string();
        match op {
            MOp::On(a, Op::Trading(b)) => {
                // a toggle through the book handle `get_order_book_mut(a)`
                let bk = self.market.get_order_book_mut(*a);
                if *b { let _ = bk.enable_trading(); } else { let _ = bk.disable_trading(); }
                if *b { let _ = self.shadows[*a].enable_trading(); } else { let _ = self.shadows[*a].disable_trading(); }
                self.tradings[*a] = *b;
            }
            MOp::On(a, Op::Time(t)) => {
                // one book's clock moved forward through the book handle
                self.market.get_order_book_mut(*a).set_time(*t);
                self.shadows[*a].set_time(*t);
                self.desync = true;
            }
            MOp::On(a, bop) => {
                let o = self.market_apply(*a, bop);
                let os = book_apply(&mut self.shadows[*a], bop);
                res = o.token();
                if o.token() != os.token() { sh = "DIVERGE_result".into(); }
            }
            MOp::Time(t) => { self.market.set_time(*t); for s in self.shadows.iter_mut() { s.set_time(*t); } self.desync = false; }
            MOp::Trading(b) => {
                if *b { let _ = self.market.enable_trading(); } else { let _ = self.market.disable_trading(); }
                for s in self.shadows.iter_mut() { if *b { let _ = s.enable_trading(); } else { let _ = s.disable_trading(); } }
                self.trading = *b;
                for x in self.tradings.iter_mut() { *x = *b; }
            }
            MOp::ResetVol => { self.market.reset_trade_vols(); for s in self.shadows.iter_mut() { s.reset_trade_vol(); } }
            MOp::Reload(m) => { if let Err(e) = self.reload(m) { sh = format!("RELOAD_ERR:{}", e.replace(' ', "_")); } }
        }
        if sh == "ok" {
            let eq = (0..A).all(|a| visible(&observe(self.market.get_order_book(a), self.tradings[a])) == visible(&observe(&self.shadows[a], self.tradings[a])));
            if !eq { sh = "DIVERGE".into(); }
        }
        let q = match self.queries_ok() { None => "ok".to_string(), Some(n) => format!("BAD:{}", n) };
        let mut line = self.obs(&res, &sh, &q);
        if let MOp::Reload(mode) = op {
            let n_orders: usize = (0..A).map(|a| self.market.get_orders(a).len()).sum();
            if sh == "ok" && self.json_done < 2 && n_orders <= 60 {
                if let Some((c, p)) = self.last_json.take() {
                    self.json_done += 1;
                    let hexs = |s: &str| -> String { if s.is_empty() { "-".into() } else { s.bytes().map(|b| format!("{:02x}", b)).collect() } };
                    line.push_str(&format!("\nJ m c {}\nJ m p {}", hexs(&c), hexs(&p)));
                    let base = if mode == "pretty" { &p } else { &c };
                    let n = base.len();
                    let mut x: u64 = (n as u64).wrapping_mul(0x9E3779B97F4A7C15) ^ 0xabcdef;
                    let mut cuts = vec![0usize, n - 1];
                    for _ in 0..3 { x ^= x << 13; x ^= x >> 7; x ^= x << 17; cuts.push((x % n as u64) as usize); }
                    cuts.sort(); cuts.dedup();
                    for cut in cuts {
                        let v = &base[..cut];
                        let verdict = match catch_unwind(AssertUnwindSafe(|| serde_json::from_str::<Market<A, L>>(v))) {
                            Ok(Ok(_)) => "ok", Ok(Err(_)) => "err", Err(_) => "panic",
                        };
                        line.push_str(&format!("\nJ mv cut {} {}", verdict, hexs(v)));
                    }
                }
            }
        }
        line
    }
}

pub struct MGen {
    pub rng: Xoroshiro128StarStar,
    pub profile: String,
    pub ticks: Vec<u32>,
    pub base: u32,
    pub n_prices: u32,
    pub vols: Vec<u32>,
    pub t: u64,
    pub trading: bool,
}

impl MGen {
    fn chance(&mut self, p: f64) -> bool { self.rng.gen::<f64>() < p }
    pub fn next_ops<const A: usize, const L: usize>(&mut self, live: &MarketLive<A, L>) -> Vec<MOp> {
        let mut ops = Vec::new();
        let a = self.rng.gen_range(0..A);
        let tick = self.ticks[a];
        let n = live.market.get_orders(a).len();
        let k = self.rng.gen_range(0..100);
        let offgrid = self.profile == "malformed";
        let mut advance = |g: &mut MGen, ops: &mut Vec<MOp>| {
            g.t += g.rng.gen_range(1..4);
            // now and then only the addressed book's clock is advanced (through its handle); the next
            // market-level clock change brings all books back together
            // ... or only ANOTHER book's clock (book 0's in half of the cases), so that the addressed book lags behind
            if g.chance(0.08) { ops.push(MOp::On(a, Op::Time(g.t))); }
            else if A > 1 && g.chance(0.08) { let b = if g.chance(0.5) { 0 } else { g.rng.gen_range(0..A) }; if b != a { ops.push(MOp::On(b, Op::Time(g.t))); } else { ops.push(MOp::Time(g.t)); } }
            else { ops.push(MOp::Time(g.t)); }
        };
        let mut price = |g: &mut MGen| {
            let mut p = (g.base + g.rng.gen_range(0..g.n_prices)) * tick;
            if offgrid && tick > 1 && g.chance(0.4) { p += g.rng.gen_range(1..tick); }
            p
        };
        if k < 45 || n == 0 {
            advance(self, &mut ops);
            let bid = self.chance(0.5);
            let p = if self.chance(0.12) { None } else { Some(price(self)) };
            let vi = self.rng.gen_range(0..self.vols.len());
            let tr = self.rng.gen_range(0..5);
            if self.chance(0.8) { ops.push(MOp::On(a, Op::Cap(bid, self.vols[vi], tr, p))); }
            else { ops.push(MOp::On(a, Op::Create(bid, self.vols[vi], tr, p))); }
        } else if k < 55 {
            advance(self, &mut ops);
            let id = self.rng.gen_range(0..n);
            if self.chance(0.5) { ops.push(MOp::On(a, Op::Place(id))); } else { ops.push(MOp::On(a, Op::Ev(Ev::New(id)))); }
        } else if k < 68 {
            let id = self.rng.gen_range(0..n);
            if self.chance(0.5) { ops.push(MOp::On(a, Op::Cancel(id))); } else { ops.push(MOp::On(a, Op::Ev(Ev::Cancel(id)))); }
        } else if k < 88 {
            advance(self, &mut ops);
            let id = self.rng.gen_range(0..n);
            let p = if self.chance(0.5) { None } else { Some(price(self)) };
            // `malformed`: now and then a modification to volume 0 (outside the valid inputs; the market must still
            // treat it exactly as a stand-alone book does)
            let v = if self.chance(0.4) { None } else if offgrid && self.chance(0.15) { Some(0) } else { Some(self.rng.gen_range(1..12)) };
            if self.chance(0.5) { ops.push(MOp::On(a, Op::Modify(id, p, v))); } else { ops.push(MOp::On(a, Op::Ev(Ev::Modify(id, p, v)))); }
        } else if k < 92 {
            if self.chance(0.45) {
                // book-level toggle on one asset, mixed with the market-level ones
                let on = self.chance(0.5);
                ops.push(MOp::On(a, Op::Trading(on)));
            } else {
                // requested value independent of what was requested before (redundant requests included)
                self.trading = self.chance(0.5);
                ops.push(MOp::Trading(self.trading));
            }
        } else if k < 94 {
            ops.push(MOp::ResetVol);
        } else if k < 98 && (self.profile == "reload" || self.chance(0.3)) {
            let m = ["mem", "compact", "pretty"][self.rng.gen_range(0..3)];
            ops.push(MOp::Reload(m.to_string()));
        } else {
            self.t += self.rng.gen_range(0..3);
            ops.push(MOp::Time(self.t));
        }
        ops
    }
}

pub struct MarketHeader {
    pub id: String,
    pub profile: String,
    pub t0: u64,
    pub ticks: Vec<u32>,
    pub trading: bool,
    pub levels: usize,
}

impl MarketHeader {
    pub fn line(&self) -> String {
        format!("H {} {} market {} {} {} {}", self.id, self.profile, self.t0,
            self.ticks.iter().map(|t| t.to_string()).collect::<Vec<_>>().join(","),
            if self.trading { 1 } else { 0 }, self.levels)
    }
    pub fn parse(t: &[&str]) -> Option<MarketHeader> {
        match t {
            ["H", id, profile, "market", t0, ticks, trading, l] => Some(MarketHeader {
                id: id.to_string(), profile: profile.to_string(), t0: t0.parse().ok()?,
                ticks: ticks.split(',').filter_map(|x| x.parse().ok()).collect(), trading: *trading == "1", levels: l.parse().ok()?,
            }),
            _ => None,
        }
    }
}

pub fn run_market<const A: usize, const L: usize, W: Write>(h: &MarketHeader, g: Option<&mut MGen>, fixed: &[MOp], n_ops: usize, scratch: std::path::PathBuf, w: &mut W) {
    writeln!(w, "{}", h.line()).unwrap();
    let ticks: [u32; A] = std::array::from_fn(|i| h.ticks[i]);
    let market = Market::<A, L>::new(h.t0, ticks, h.trading);
    let shadows = h.ticks.iter().map(|t| OrderBook::<L>::new(h.t0, *t, h.trading)).collect();
    let mut live = MarketLive { market, shadows, trading: h.trading, tradings: vec![h.trading; A], scratch, dead: false, last_json: None, json_done: 0, desync: false };
    writeln!(w, "I {}", live.obs("u", "ok", "ok")).unwrap();
    let mut emit = |live: &mut MarketLive<A, L>, op: &MOp, w: &mut W| {
        writeln!(w, "O {}", op.line()).unwrap();
        let i = live.step(op);
        writeln!(w, "I {}", i).unwrap();
    };
    match g {
        Some(g) => {
            let mut count = 0;
            while count < n_ops {
                let ops = g.next_ops(&live);
                for op in ops.iter() {
                    emit(&mut live, op, w);
                    count += 1;
                    if live.dead { return; }
                }
            }
        }
        None => {
            for op in fixed {
                emit(&mut live, op, w);
                if live.dead { return; }
            }
        }
    }
}
