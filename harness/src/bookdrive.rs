//! Runs operation sequences on the REAL `bourse_book::OrderBook<L>` and prints the stream
//! (`H` / `O` / `I` lines) consumed by the Lean driver.

use crate::obs::{observe, visible};
use crate::proto::{side_of, BookHeader, Op};
use bourse_book::types::Status;
use bourse_book::OrderBook;
use std::io::Write;
use std::panic::{catch_unwind, AssertUnwindSafe};

pub struct Live<const L: usize> {
    pub book: OrderBook<L>,
    /// originals kept after a reload, driven in lock-step with the reloaded book (C07)
    pub shadows: Vec<OrderBook<L>>,
    pub trading: bool,
    pub scratch: std::path::PathBuf,
    pub dead: bool,
    /// number of reloads whose JSON text has been printed (`J` lines) in this history
    pub json_done: usize,
    /// number of file snapshots written so far in this history
    pub files_done: usize,
    /// an earlier snapshot file that nothing has overwritten since, with the compact text of the book it was
    /// written from: reading it back later must still give that book (C07: "a JSON snapshot restores ..." whatever
    /// other snapshots have been written to OTHER paths meanwhile)
    pub kept_file: Option<(std::path::PathBuf, String)>,
}

/// `J` lines are bulky (two full texts and a dozen variants per reload): at most this many reloads per
/// process print them (the thorough tier runs thousands of reload histories per process).
static JSON_BUDGET: std::sync::atomic::AtomicUsize = std::sync::atomic::AtomicUsize::new(400);

fn hex(s: &str) -> String {
    let mut o = String::with_capacity(s.len() * 2);
    for b in s.bytes() {
        o.push_str(&format!("{:02x}", b));
    }
    if o.is_empty() { "-".into() } else { o }
}

fn fnv(s: &str) -> u64 {
    let mut h: u64 = 0xcbf29ce484222325;
    for b in s.bytes() {
        h ^= b as u64;
        h = h.wrapping_mul(0x100000001b3);
    }
    h
}

/// The real loader on a text: `ok <compact text of what was loaded>` / `err` / `panic`.
fn load_verdict<const L: usize>(text: &str) -> (String, String) {
    let r = catch_unwind(AssertUnwindSafe(|| serde_json::from_str::<OrderBook<L>>(text)));
    match r {
        Ok(Ok(b)) => match catch_unwind(AssertUnwindSafe(|| serde_json::to_string(&b))) {
            Ok(Ok(t)) => ("ok".into(), hex(&t)),
            _ => ("panic".into(), "-".into()),
        },
        Ok(Err(_)) => ("err".into(), "-".into()),
        Err(_) => ("panic".into(), "-".into()),
    }
}

pub enum Outcome {
    Unit,
    Ok(usize),
    Err(u32, u32),
    Panic,
}

impl Outcome {
    pub fn token(&self) -> String {
        match self {
            Outcome::Unit => "u".into(),
            Outcome::Ok(i) => format!("ok:{}", i),
            Outcome::Err(p, t) => format!("err:{}:{}", p, t),
            Outcome::Panic => "PANIC".into(),
        }
    }
}

fn apply<const L: usize>(book: &mut OrderBook<L>, op: &Op) -> Outcome {
    use bourse_book::OrderError;
    match op {
        Op::Create(s, v, t, p) => match book.create_order(side_of(*s), *v, *t, *p) {
            Ok(id) => Outcome::Ok(id),
            Err(OrderError::PriceError { price, tick_size }) => Outcome::Err(price, tick_size),
        },
        Op::Cap(s, v, t, p) => match book.create_and_place_order(side_of(*s), *v, *t, *p) {
            Ok(id) => Outcome::Ok(id),
            Err(OrderError::PriceError { price, tick_size }) => Outcome::Err(price, tick_size),
        },
        Op::Place(i) => {
            book.place_order(*i);
            Outcome::Unit
        }
        Op::Cancel(i) => {
            book.cancel_order(*i);
            Outcome::Unit
        }
        Op::Modify(i, p, v) => {
            book.modify_order(*i, *p, *v);
            Outcome::Unit
        }
        Op::Ev(e) => {
            book.process_event(e.to_event());
            Outcome::Unit
        }
        Op::Time(t) => {
            book.set_time(*t);
            Outcome::Unit
        }
        Op::Trading(b) => {
            if *b {
                let _ = book.enable_trading();
            } else {
                let _ = book.disable_trading();
            }
            Outcome::Unit
        }
        Op::ResetVol => {
            book.reset_trade_vol();
            Outcome::Unit
        }
        Op::Reload(_) | Op::Jump(_) => Outcome::Unit,
    }
}

impl<const L: usize> Live<L> {
    pub fn new(h: &BookHeader, scratch: std::path::PathBuf) -> Option<Self> {
        let book = catch_unwind(|| OrderBook::<L>::new(h.t0, h.tick, h.trading)).ok()?;
        Some(Live {
            book,
            shadows: Vec::new(),
            trading: h.trading,
            scratch,
            dead: false,
            json_done: 0,
            files_done: 0,
            kept_file: None,
        })
    }

    pub fn n_orders(&self) -> usize {
        self.book.get_orders().len()
    }
    pub fn status(&self, id: usize) -> Status {
        self.book.order(id).status
    }

    fn reload(&mut self, mode: &str) -> Result<(), String> {
        let reloaded: OrderBook<L> = match mode {
            "mem" => {
                let s = serde_json::to_string(&self.book).map_err(|e| e.to_string())?;
                serde_json::from_str(&s).map_err(|e| e.to_string())?
            }
            "compact" | "pretty" => {
                std::fs::create_dir_all(&self.scratch).map_err(|e| e.to_string())?;
                // file names: every other snapshot goes to the same path `snap.json` (deliberately left in place: the
                // next save there overwrites a longer or shorter file), the others to fresh sibling paths with dotted
                // names that are not `.json` (`snap.1`, `snap.3`, ...)
                let k = self.files_done;
                self.files_done += 1;
                let path = if k % 2 == 0 { self.scratch.join("snap.json") } else { self.scratch.join(format!("snap.{}", k)) };
                self.book
                    .save_json(&path, mode == "pretty")
                    .map_err(|e| e.to_string())?;
                let loaded = OrderBook::<L>::load_json(&path).map_err(|e| e.to_string())?;
                // an earlier snapshot at another path must still read back as the book it was written from
                if let Some((p0, text0)) = &self.kept_file {
                    let back = OrderBook::<L>::load_json(p0).map_err(|e| format!("earlier snapshot no longer loads: {}", e))?;
                    let t = serde_json::to_string(&back).map_err(|e| e.to_string())?;
                    if &t != text0 {
                        return Err("STALE:an earlier snapshot file (another path) now loads as a different book".into());
                    }
                }
                if k % 2 == 1 && self.kept_file.is_none() {
                    self.kept_file = Some((path.clone(), serde_json::to_string(&self.book).map_err(|e| e.to_string())?));
                }
                loaded
            }
            m if m.starts_with("shift:") => {
                let k: u64 = m[6..].parse().map_err(|_| "bad shift".to_string())?;
                let mut v = serde_json::to_value(&self.book).map_err(|e| e.to_string())?;
                let bump = |x: &mut serde_json::Value| -> Result<(), String> {
                    let n = x.as_u64().ok_or("stamp is not a u64")?;
                    *x = serde_json::Value::from(n.checked_add(k).ok_or("stamp overflow")?);
                    Ok(())
                };
                // (a snapshot layout without the counter - it can be rebuilt from the keys - is shifted through its keys alone)
                if let Some(q) = v.get_mut("queue_stamp") { bump(q)?; }
                for o in v.get_mut("orders").and_then(|o| o.as_array_mut()).ok_or("no orders")? {
                    bump(o.get_mut("key").and_then(|k| k.get_mut(2)).ok_or("no key")?)?;
                }
                serde_json::from_value(v).map_err(|e| e.to_string())?
            }
            _ => return Err("bad mode".into()),
        };
        let old = std::mem::replace(&mut self.book, reloaded);
        self.shadows.push(old);
        if self.shadows.len() > 2 {
            self.shadows.remove(0);
        }
        Ok(())
    }

    /// Apply one operation; returns the `I` line tokens.
    pub fn step(&mut self, op: &Op) -> String {
        let trading_after = match op {
            Op::Trading(b) => *b,
            _ => self.trading,
        };
        let mut sh = "ok".to_string();
        let jump_mode = if let Op::Jump(k) = op { Some(format!("shift:{}", k)) } else { None };
        let out = if let Some(mode) = match op { Op::Reload(m) => Some(m), Op::Jump(_) => jump_mode.as_ref(), _ => None } {
            match catch_unwind(AssertUnwindSafe(|| self.reload(mode))) {
                Ok(Ok(())) => Outcome::Unit,
                Ok(Err(e)) => {
                    sh = format!("RELOAD_ERR:{}", e.replace(' ', "_"));
                    Outcome::Unit
                }
                Err(_) => Outcome::Panic,
            }
        } else {
            let book = &mut self.book;
            match catch_unwind(AssertUnwindSafe(|| apply(book, op))) {
                Ok(o) => o,
                Err(_) => Outcome::Panic,
            }
        };
        if let Outcome::Panic = out {
            self.dead = true;
            return format!("r=PANIC {} sh=ok", dead_obs());
        }
        self.trading = trading_after;
        let main = match catch_unwind(AssertUnwindSafe(|| observe(&self.book, self.trading))) {
            Ok(s) => s,
            Err(_) => {
                self.dead = true;
                return format!("r=PANIC {} sh=ok", dead_obs());
            }
        };
        // lock-step shadows
        if !matches!(op, Op::Reload(_) | Op::Jump(_)) {
            let trading = self.trading;
            let mut diverged = false;
            for s in self.shadows.iter_mut() {
                let r = catch_unwind(AssertUnwindSafe(|| {
                    let o = apply(s, op);
                    (o.token(), observe(s, trading))
                }));
                match r {
                    Ok((tok, ob)) => {
                        if tok != out.token() || visible(&ob) != visible(&main) {
                            diverged = true;
                        }
                    }
                    Err(_) => diverged = true,
                }
            }
            if diverged {
                sh = "DIVERGE".to_string();
            }
        } else if sh == "ok" {
            // the reloaded book must show exactly what the original shows
            let trading = self.trading;
            if let Some(orig) = self.shadows.last() {
                if visible(&observe(orig, trading)) != visible(&main) {
                    sh = "DIVERGE".to_string();
                }
            }
        }
        let mut line = format!("r={} {} sh={}", out.token(), main, sh);
        if let Op::Reload(mode) = op {
            if sh == "ok" && self.json_done < 3 && self.book.get_orders().len() <= 60
                && JSON_BUDGET.fetch_update(std::sync::atomic::Ordering::SeqCst, std::sync::atomic::Ordering::SeqCst, |b| b.checked_sub(1)).is_ok()
            {
                self.json_done += 1;
                for l in self.json_lines(mode) {
                    line.push('\n');
                    line.push_str(&l);
                }
            }
        }
        line
    }

    /// `J` lines after a reload: the text the real `serde_json` writes for the ORIGINAL book
    /// (compact and pretty), and variants of it (cut short, padded with whitespace, one character
    /// replaced, an extra / a duplicated member) with the real loader's verdict on each.
    fn json_lines(&self, mode: &str) -> Vec<String> {
        let mut out = Vec::new();
        let orig = match self.shadows.last() {
            Some(b) => b,
            None => return out,
        };
        let compact = match serde_json::to_string(orig) { Ok(t) => t, Err(_) => return out };
        let pretty = match serde_json::to_string_pretty(orig) { Ok(t) => t, Err(_) => return out };
        out.push(format!("J t c {}", hex(&compact)));
        out.push(format!("J t p {}", hex(&pretty)));
        let base = if mode == "pretty" { &pretty } else { &compact };
        let mut x = fnv(base) ^ 0x9E3779B97F4A7C15;
        let mut next = |n: usize| -> usize {
            x ^= x << 13;
            x ^= x >> 7;
            x ^= x << 17;
            (x % (n.max(1) as u64)) as usize
        };
        let n = base.len();
        // cut short: three offsets anywhere, the last byte missing, the empty file
        let mut cuts = vec![0usize, n - 1, next(n), next(n), next(n)];
        cuts.sort();
        cuts.dedup();
        for c in cuts {
            let v = &base[..c];
            let (verdict, back) = load_verdict::<L>(v);
            out.push(format!("J v cut {} {} {}", verdict, hex(v), back));
        }
        // padded: whitespace after structural characters and at both ends
        {
            let ws = [" ", "\n", "\t", "\r\n", "  "];
            let mut v = String::new();
            v.push_str(ws[next(ws.len())]);
            let mut in_str = false;
            for ch in base.chars() {
                v.push(ch);
                if ch == '"' { in_str = !in_str; }
                if !in_str && matches!(ch, ',' | ':' | '[' | '{') && next(3) == 0 {
                    v.push_str(ws[next(ws.len())]);
                }
            }
            v.push_str(ws[next(ws.len())]);
            let (verdict, back) = load_verdict::<L>(&v);
            out.push(format!("J v pad {} {} {}", verdict, hex(&v), back));
        }
        // one character replaced
        let alphabet = ['{', '}', '[', ']', ',', ':', '"', '0', '9', 'a', ' ', '1'];
        for _ in 0..4 {
            let pos = next(n);
            let mut bytes = base.clone().into_bytes();
            bytes[pos] = alphabet[next(alphabet.len())] as u8;
            let v = String::from_utf8(bytes).unwrap();
            let (verdict, back) = load_verdict::<L>(&v);
            out.push(format!("J v sub {} {} {}", verdict, hex(&v), back));
        }
        // an unknown extra member (ignored by the derive) and a duplicated member (an error)
        if base.ends_with('}') {
            let stem = &base[..n - 1];
            for (kind, extra) in [("extra", ",\"zz\":[1,{\"a\":true}]}"), ("dup", ",\"t\":5}"), ("trail", "} x"), ("nostamp", "")] {
                let v = if kind == "nostamp" {
                    // `queue_stamp` is #[serde(default)]: a file without it still loads
                    match compact.find("\"queue_stamp\":") {
                        Some(i) => {
                            let j = compact[i..].find(',').map(|k| i + k + 1).unwrap_or(i);
                            format!("{}{}", &compact[..i], &compact[j..])
                        }
                        None => continue,
                    }
                } else {
                    format!("{}{}", stem, extra)
                };
                let (verdict, back) = load_verdict::<L>(&v);
                out.push(format!("J v {} {} {} {}", kind, verdict, hex(&v), back));
            }
        }
        out
    }

    pub fn initial(&self) -> String {
        format!("r=u {} sh=ok", observe(&self.book, self.trading))
    }
}

fn dead_obs() -> &'static str {
    "t=0 tr=0 tv=0 ba=0,0 v=0,0 bb=0,0 ab=0,0 bv=0,0 bl=- al=- l1=0,0,0,0,0,0,0,0 l2=0,0,0,0/-/- mid2=X o=- x=-"
}

/// Run a fixed op list, writing the stream.
pub fn run_fixed<const L: usize, W: Write>(
    h: &BookHeader,
    ops: &[Op],
    scratch: std::path::PathBuf,
    w: &mut W,
) {
    writeln!(w, "{}", h.line()).unwrap();
    let mut live = match Live::<L>::new(h, scratch) {
        Some(l) => l,
        None => {
            writeln!(w, "I r=PANIC {} sh=ok", dead_obs()).unwrap();
            return;
        }
    };
    writeln!(w, "I {}", live.initial()).unwrap();
    for op in ops {
        writeln!(w, "O {}", op.line()).unwrap();
        let i = live.step(op);
        writeln!(w, "I {}", i).unwrap();
        if live.dead {
            break;
        }
    }
}
