//! Runs operation sequences on the REAL `bourse_book::OrderBook<L>` and prints the stream
//! (`H` / `O` / `I` lines) consumed by the Lean driver.

use crate::obs::observe;
use crate::proto::{side_of, BookHeader, Op};
use bourse_book::types::Status;
use bourse_book::OrderBook;
use std::io::Write;
use std::panic::{catch_unwind, AssertUnwindSafe};

pub struct Live<const L: usize> {
    pub book: OrderBook<L>,
    /// originals kept after a reload, driven in lock-step with the reloaded book (C07)
    pub shadows: Vec<OrderBook<L>>,
    pub trading: bool,
    pub scratch: std::path::PathBuf,
    pub dead: bool,
}

pub enum Outcome {
    Unit,
    Ok(usize),
    Err(u32, u32),
    Panic,
}

impl Outcome {
    pub fn token(&self) -> String {
        match self {
            Outcome::Unit => "u".into(),
            Outcome::Ok(i) => format!("ok:{}", i),
            Outcome::Err(p, t) => format!("err:{}:{}", p, t),
            Outcome::Panic => "PANIC".into(),
        }
    }
}

fn apply<const L: usize>(book: &mut OrderBook<L>, op: &Op) -> Outcome {
    use bourse_book::OrderError;
    match op {
        Op::Create(s, v, t, p) => match book.create_order(side_of(*s), *v, *t, *p) {
            Ok(id) => Outcome::Ok(id),
            Err(OrderError::PriceError { price, tick_size }) => Outcome::Err(price, tick_size),
        },
        Op::Cap(s, v, t, p) => match book.create_and_place_order(side_of(*s), *v, *t, *p) {
            Ok(id) => Outcome::Ok(id),
            Err(OrderError::PriceError { price, tick_size }) => Outcome::Err(price, tick_size),
        },
        Op::Place(i) => {
            book.place_order(*i);
            Outcome::Unit
        }
        Op::Cancel(i) => {
            book.cancel_order(*i);
            Outcome::Unit
        }
        Op::Modify(i, p, v) => {
            book.modify_order(*i, *p, *v);
            Outcome::Unit
        }
        Op::Ev(e) => {
            book.process_event(e.to_event());
            Outcome::Unit
        }
        Op::Time(t) => {
            book.set_time(*t);
            Outcome::Unit
        }
        Op::Trading(b) => {
            if *b {
                book.enable_trading()
            } else {
                book.disable_trading()
            }
            Outcome::Unit
        }
        Op::ResetVol => {
            book.reset_trade_vol();
            Outcome::Unit
        }
        Op::Reload(_) => Outcome::Unit,
    }
}

impl<const L: usize> Live<L> {
    pub fn new(h: &BookHeader, scratch: std::path::PathBuf) -> Option<Self> {
        let book = catch_unwind(|| OrderBook::<L>::new(h.t0, h.tick, h.trading)).ok()?;
        Some(Live {
            book,
            shadows: Vec::new(),
            trading: h.trading,
            scratch,
            dead: false,
        })
    }

    pub fn n_orders(&self) -> usize {
        self.book.get_orders().len()
    }
    pub fn status(&self, id: usize) -> Status {
        self.book.order(id).status
    }

    fn reload(&mut self, mode: &str) -> Result<(), String> {
        let reloaded: OrderBook<L> = match mode {
            "mem" => {
                let s = serde_json::to_string(&self.book).map_err(|e| e.to_string())?;
                serde_json::from_str(&s).map_err(|e| e.to_string())?
            }
            "compact" | "pretty" => {
                std::fs::create_dir_all(&self.scratch).map_err(|e| e.to_string())?;
                let path = self.scratch.join("snap.json");
                self.book
                    .save_json(&path, mode == "pretty")
                    .map_err(|e| e.to_string())?;
                // the snapshot file is deliberately left in place: the next save overwrites it
                OrderBook::<L>::load_json(&path).map_err(|e| e.to_string())?
            }
            _ => return Err("bad mode".into()),
        };
        let old = std::mem::replace(&mut self.book, reloaded);
        self.shadows.push(old);
        if self.shadows.len() > 2 {
            self.shadows.remove(0);
        }
        Ok(())
    }

    /// Apply one operation; returns the `I` line tokens.
    pub fn step(&mut self, op: &Op) -> String {
        let trading_after = match op {
            Op::Trading(b) => *b,
            _ => self.trading,
        };
        let mut sh = "ok".to_string();
        let out = if let Op::Reload(mode) = op {
            match catch_unwind(AssertUnwindSafe(|| self.reload(mode))) {
                Ok(Ok(())) => Outcome::Unit,
                Ok(Err(e)) => {
                    sh = format!("RELOAD_ERR:{}", e.replace(' ', "_"));
                    Outcome::Unit
                }
                Err(_) => Outcome::Panic,
            }
        } else {
            let book = &mut self.book;
            match catch_unwind(AssertUnwindSafe(|| apply(book, op))) {
                Ok(o) => o,
                Err(_) => Outcome::Panic,
            }
        };
        if let Outcome::Panic = out {
            self.dead = true;
            return format!("r=PANIC {} sh=ok", dead_obs());
        }
        self.trading = trading_after;
        let main = match catch_unwind(AssertUnwindSafe(|| observe(&self.book, self.trading))) {
            Ok(s) => s,
            Err(_) => {
                self.dead = true;
                return format!("r=PANIC {} sh=ok", dead_obs());
            }
        };
        // lock-step shadows
        if !matches!(op, Op::Reload(_)) {
            let trading = self.trading;
            let mut diverged = false;
            for s in self.shadows.iter_mut() {
                let r = catch_unwind(AssertUnwindSafe(|| {
                    let o = apply(s, op);
                    (o.token(), observe(s, trading))
                }));
                match r {
                    Ok((tok, ob)) => {
                        if tok != out.token() || ob != main {
                            diverged = true;
                        }
                    }
                    Err(_) => diverged = true,
                }
            }
            if diverged {
                sh = "DIVERGE".to_string();
            }
        } else if sh == "ok" {
            // the reloaded book must show exactly what the original shows
            let trading = self.trading;
            if let Some(orig) = self.shadows.last() {
                if observe(orig, trading) != main {
                    sh = "DIVERGE".to_string();
                }
            }
        }
        format!("r={} {} sh={}", out.token(), main, sh)
    }

    pub fn initial(&self) -> String {
        format!("r=u {} sh=ok", observe(&self.book, self.trading))
    }
}

fn dead_obs() -> &'static str {
    "t=0 tr=0 tv=0 ba=0,0 v=0,0 bb=0,0 ab=0,0 bv=0,0 bl=- al=- l1=0,0,0,0,0,0,0,0 l2=0,0,0,0/-/- mid2=X o=- x=-"
}

/// Run a fixed op list, writing the stream.
pub fn run_fixed<const L: usize, W: Write>(
    h: &BookHeader,
    ops: &[Op],
    scratch: std::path::PathBuf,
    w: &mut W,
) {
    writeln!(w, "{}", h.line()).unwrap();
    let mut live = match Live::<L>::new(h, scratch) {
        Some(l) => l,
        None => {
            writeln!(w, "I r=PANIC {} sh=ok", dead_obs()).unwrap();
            return;
        }
    };
    writeln!(w, "I {}", live.initial()).unwrap();
    for op in ops {
        writeln!(w, "O {}", op.line()).unwrap();
        let i = live.step(op);
        writeln!(w, "I {}", i).unwrap();
        if live.dead {
            break;
        }
    }
}
