//! The real `f64` price helpers of `bourse_de::agents::common` on dyadic inputs (`PH` lines),
//! compared by the Lean driver with `Model/PriceHelpers.lean` (exact rationals).
//!
//! Inputs are chosen so that every intermediate `f64` value is exact or — for the division by the
//! tick size — rounds to a value with the same floor / ceiling (see the model's header).

use bourse_de::agents::common;
use bourse_de::types::{Price, Status};
use bourse_de::{Env, MarketEnv};
use rand::{Rng, SeedableRng};
use rand_distr::Distribution;
use rand_xoshiro::Xoroshiro128StarStar;
use std::panic::{catch_unwind, AssertUnwindSafe};

#[derive(Clone, Copy)]
struct Fixed(f64);

impl Distribution<f64> for Fixed {
    fn sample<R: Rng + ?Sized>(&self, _rng: &mut R) -> f64 {
        self.0
    }
}

fn last_price(env: &Env) -> String {
    match env.get_orders().last() {
        Some(o) if o.status == Status::New => o.price.to_string(),
        _ => "NONE".into(),
    }
}

/// `price-helpers --seed S --n N`
pub fn run(seed: u64, n: usize) {
    let mut rng = Xoroshiro128StarStar::seed_from_u64(seed ^ 0x5151);
    for i in 0..n {
        let tick: u32 = rng.gen_range(1..11);
        // twice the mid-price: small, typical, around the top of the price range
        let max2: u64 = 2 * (Price::MAX as u64);
        let mid2: u64 = match rng.gen_range(0..6) {
            0 => rng.gen_range(0..(4 * tick as u64 + 1)),
            1 => 2000 * tick as u64 + rng.gen_range(0..41),
            2 => max2 - rng.gen_range(0..(6 * tick as u64 + 3)),
            3 => rng.gen_range(0..max2 + 1),
            _ => rng.gen_range(0..200_000u64),
        };
        let mid = mid2 as f64 / 2.0;
        // the sample: a dyadic rational a / 2^k of either sign, or +inf
        let (dist, dist_s): (f64, String) = match rng.gen_range(0..10) {
            0 => (f64::INFINITY, "inf".into()),
            1 => {
                // huge integral samples (the heavy tail of a log-normal with sigma = 10)
                let a: i64 = rng.gen_range(0..(1i64 << 47));
                (a as f64, format!("{}/1", a))
            }
            _ => {
                let k: u32 = rng.gen_range(0..11);
                let a: i64 = match rng.gen_range(0..4) {
                    0 => rng.gen_range(-(1i64 << 12)..(1i64 << 12)),
                    1 => rng.gen_range(0..(1i64 << 20)),
                    2 => (mid2 as i64) << (k.max(1) - 1), // lands exactly on zero for a buy
                    _ => rng.gen_range(-(1i64 << 33)..(1i64 << 33)),
                };
                (a as f64 / (1u64 << k) as f64, format!("{}/{}", a, 1u64 << k))
            }
        };
        let tf = tick as f64;
        let down = common::round_price_down(mid - dist.abs(), tf);
        let up = common::round_price_up(mid + dist.abs(), tf);
        // the placement helpers, single- and multi-asset, on fresh environments
        let buy = catch_unwind(AssertUnwindSafe(|| {
            let mut env = Env::new(0, tick, 10, true);
            let mut r = Xoroshiro128StarStar::seed_from_u64(1);
            match common::place_buy_limit_order(&mut env, &mut r, Fixed(dist), mid, tf, 1, 7) {
                Ok(_) => last_price(&env),
                Err(_) => "ERR".into(),
            }
        }))
        .unwrap_or_else(|_| "PANIC".into());
        let sell = catch_unwind(AssertUnwindSafe(|| {
            let mut env = Env::new(0, tick, 10, true);
            let mut r = Xoroshiro128StarStar::seed_from_u64(1);
            match common::place_sell_limit_order(&mut env, &mut r, Fixed(dist), mid, tf, 1, 7) {
                Ok(_) => last_price(&env),
                Err(_) => "ERR".into(),
            }
        }))
        .unwrap_or_else(|_| "PANIC".into());
        let mbuy = catch_unwind(AssertUnwindSafe(|| {
            let mut env: MarketEnv<2> = MarketEnv::new(0, [1, tick], 10, true);
            let mut r = Xoroshiro128StarStar::seed_from_u64(1);
            match common::place_buy_limit_order_market(&mut env, &mut r, Fixed(dist), mid, tf, 1, 1, 7) {
                Ok(id) => env.order(id).price.to_string(),
                Err(_) => "ERR".into(),
            }
        }))
        .unwrap_or_else(|_| "PANIC".into());
        let msell = catch_unwind(AssertUnwindSafe(|| {
            let mut env: MarketEnv<2> = MarketEnv::new(0, [1, tick], 10, true);
            let mut r = Xoroshiro128StarStar::seed_from_u64(1);
            match common::place_sell_limit_order_market(&mut env, &mut r, Fixed(dist), mid, tf, 1, 1, 7) {
                Ok(id) => env.order(id).price.to_string(),
                Err(_) => "ERR".into(),
            }
        }))
        .unwrap_or_else(|_| "PANIC".into());
        println!("PH ph-{}-{} {} {} {} {} {} {} {} {} {}", seed, i, tick, mid2, dist_s, down, up, buy, sell, mbuy, msell);
    }
}
