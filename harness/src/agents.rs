//! Audits of the REAL built-in agents (C16) and harness-controlled momentum runs (C17).

use crate::sim::{frac, AgentSpec};
use bourse_book::types::{Side, Status};
use bourse_book::OrderBook;
use bourse_de::agents::{Agent, MarketAgent};
use bourse_de::{Env, MarketEnv};
use rand::Rng;
use rand_xoshiro::rand_core::SeedableRng;
use rand_xoshiro::Xoroshiro128StarStar;
use std::panic::{catch_unwind, AssertUnwindSafe};

/// Uniform view of the two environment types for the audits.
pub trait AEnv {
    fn book(&self, a: usize) -> &OrderBook<10>;
    fn submit(&mut self, a: usize, side: Side, vol: u32, tr: u32, p: Option<u32>);
    fn qcancel(&mut self, a: usize, id: usize);
    fn do_step(&mut self, rng: &mut Xoroshiro128StarStar);
}
impl AEnv for Env {
    fn book(&self, _a: usize) -> &OrderBook<10> { self.get_orderbook() }
    fn submit(&mut self, _a: usize, side: Side, vol: u32, tr: u32, p: Option<u32>) { self.place_order(side, vol, tr, p).unwrap(); }
    fn qcancel(&mut self, _a: usize, id: usize) { self.cancel_order(id) }
    fn do_step(&mut self, rng: &mut Xoroshiro128StarStar) { self.step(rng) }
}
impl AEnv for MarketEnv<2, 10> {
    fn book(&self, a: usize) -> &OrderBook<10> { self.get_market().get_order_book(a) }
    fn submit(&mut self, a: usize, side: Side, vol: u32, tr: u32, p: Option<u32>) { self.place_order(a, side, vol, tr, p).unwrap(); }
    fn qcancel(&mut self, a: usize, id: usize) { self.cancel_order((a, id)) }
    fn do_step(&mut self, rng: &mut Xoroshiro128StarStar) { self.step(rng) }
}

/// Twelve assets with the default ten levels: asset indices at or above the level count exist.
impl AEnv for MarketEnv<12, 10> {
    fn book(&self, a: usize) -> &OrderBook<10> { self.get_market().get_order_book(a) }
    fn submit(&mut self, a: usize, side: Side, vol: u32, tr: u32, p: Option<u32>) { self.place_order(a, side, vol, tr, p).unwrap(); }
    fn qcancel(&mut self, a: usize, id: usize) { self.cancel_order((a, id)) }
    fn do_step(&mut self, rng: &mut Xoroshiro128StarStar) { self.step(rng) }
}

fn is_bid(s: Side) -> bool { matches!(s, Side::Bid) }
fn is_market(side: Side, price: u32) -> bool { (is_bid(side) && price == u32::MAX) || (!is_bid(side) && price == 0) }

pub struct AuditCfg {
    pub multi: bool,
    pub asset: usize,
    pub tick: u32,
    pub seed: u64,
    pub steps: usize,
    pub start_book: u8, // 0 empty, 1 bids only, 2 asks only, 3 two-sided, 4/5 asks only at the bottom of the price range
    pub subject: AgentSpec,
}

impl AuditCfg {
    pub fn line(&self) -> String {
        let mut s = format!("{} asset={} tick={} seed={} steps={} book={} {}", if self.multi { "menv" } else { "env" }, self.asset, self.tick, self.seed, self.steps, self.start_book, self.subject.kind);
        for f in &self.subject.f { s.push(':'); s.push_str(f); }
        s
    }
}

/// What happened in a run, or the first violated clause.
pub struct AuditOut {
    pub verdict: Result<(), String>,
    pub orders: usize,
    pub cancels: usize,
    pub limit: usize,
    pub market: usize,
}

/// The seeded generator, except that ONE chosen draw of the next update can be forced to an extreme raw output (all ones:
/// the largest uniform draw below 1; zero: the draw 0.0). "For all seeds" is "for all generator outputs", and the extremes
/// have probability 2^-32 / 2^-64 per draw: no seed search reaches them, yet the activity corners (probability 0 never,
/// probability >= 1 always) must hold there too. The forced draw still advances the real generator, so everything else
/// about the run is the run of that seed.
pub struct ForceRng {
    pub inner: Xoroshiro128StarStar,
    pub force: Option<(usize, u64)>,
    pub n: usize,
}
impl rand::RngCore for ForceRng {
    fn next_u32(&mut self) -> u32 {
        let i = self.n;
        self.n += 1;
        let real = self.inner.next_u32();
        match self.force { Some((k, v)) if k == i => v as u32, _ => real }
    }
    fn next_u64(&mut self) -> u64 {
        let i = self.n;
        self.n += 1;
        let real = self.inner.next_u64();
        match self.force { Some((k, v)) if k == i => v, _ => real }
    }
    fn fill_bytes(&mut self, dest: &mut [u8]) { self.n += 1; self.inner.fill_bytes(dest) }
    fn try_fill_bytes(&mut self, dest: &mut [u8]) -> Result<(), rand::Error> { self.fill_bytes(dest); Ok(()) }
}

fn audit_loop<E: AEnv>(cfg: &AuditCfg, env: &mut E, mut update: impl FnMut(&mut E, &mut ForceRng)) -> AuditOut {
    let a = cfg.asset;
    let tick = cfg.tick;
    let mut rng = ForceRng { inner: Xoroshiro128StarStar::seed_from_u64(cfg.seed), force: None, n: 0 };
    let sp = &cfg.subject;
    let (tlo, thi) = sp.traders();
    let mut out = AuditOut { verdict: Ok(()), orders: 0, cancels: 0, limit: 0, market: 0 };
    // starting book, by a foreign trader
    // start_book 4 / 5: a book at the very bottom of the price range (asks only, best ask = one tick,
    // so the observed mid is half a tick)
    let low = cfg.start_book >= 4;
    let base = if low { 0 } else { 1000 * tick };
    if low {
        let n = if cfg.start_book == 4 { 4u32 } else { 2u32 };
        for k in 1..n { env.submit(a, Side::Ask, 50, 9000, Some(k * tick)); }
    }
    if !low && cfg.start_book & 1 != 0 {
        for k in 1..4u32 { env.submit(a, Side::Bid, 50, 9000, Some(base - k * tick)); }
    }
    if !low && cfg.start_book & 2 != 0 {
        for k in 1..4u32 { env.submit(a, Side::Ask, 50, 9000, Some(base + k * tick)); }
    }
    env.do_step(&mut rng.inner);
    let n_traders = (thi - tlo) as usize;
    let mut mom_m: f64 = 0.0;
    let mut mom_last: Option<f64> = None;
    for step in 0..cfg.steps {
        // the harness keeps the market moving (trader 9000): improve a touch, or hit the book
        {
            let (bb, ba) = env.book(a).bid_ask();
            match rng.gen_range(0..5) {
                0 if bb > 0 && ba < u32::MAX && bb + 2 * tick < ba => env.submit(a, Side::Bid, 5, 9000, Some(bb + tick)),
                1 if bb > 0 && ba < u32::MAX && bb + 2 * tick < ba => env.submit(a, Side::Ask, 5, 9000, Some(ba - tick)),
                2 if ba < u32::MAX => env.submit(a, Side::Bid, 60, 9000, None),
                3 if bb > 0 => env.submit(a, Side::Ask, 60, 9000, None),
                _ => {}
            }
        }
        let before: Vec<(Status, u32, bool)> = env.book(a).get_orders().iter().map(|o| (o.status, o.trader_id, is_market(o.side, o.price))).collect();
        let n_before = before.len();
        let mid = env.book(a).mid_price();
        // the documented momentum recursion on the mids the agent observes (momentum agents only)
        let mut mom_now: Option<(f64, f64, f64)> = None; // (M, p_market, p_limit)
        if sp.kind == 'M' {
            let (decay, demand, scale, ratio) = (frac(&sp.f[5]), frac(&sp.f[6]), frac(&sp.f[7]), frac(&sp.f[8]));
            let nn: f64 = sp.f[1].parse::<f64>().unwrap();
            if let Some(p) = mom_last {
                mom_m = mom_m * (1.0 - decay) + decay * (mid - p);
                let pm = (demand * (scale * mom_m).tanh() / nn).abs();
                mom_now = Some((mom_m, pm, ratio * pm));
            } else {
                mom_now = Some((0.0, 0.0, 0.0));
            }
            mom_last = Some(mid);
        }
        // one update in three: one of its first draws is forced to an extreme raw output (decided from the configuration,
        // not from the generator)
        rng.n = 0;
        rng.force = None;
        if sp.kind != 'R' {
            let hsh = cfg.seed.wrapping_mul(0x9E3779B97F4A7C15).wrapping_add((step as u64).wrapping_mul(0x632BE59BD9B4E019));
            if (hsh >> 7) % 3 == 0 {
                rng.force = Some((((hsh >> 20) % 4) as usize, if (hsh >> 30) % 2 == 0 { u64::MAX } else { 0 }));
            }
        }
        let r = catch_unwind(AssertUnwindSafe(|| update(env, &mut rng)));
        rng.force = None;
        if r.is_err() {
            out.verdict = Err(format!("agent_aborted@step{}", step));
            return out;
        }
        let orders = env.book(a).get_orders();
        let mut per_trader_limit = vec![0usize; n_traders];
        let mut per_trader_market = vec![0usize; n_traders];
        let mut fail: Option<String> = None;
        for o in orders[n_before..].iter() {
            out.orders += 1;
            if o.trader_id < tlo || o.trader_id >= thi { fail = Some("foreign_trader_id".into()); break; }
            let ti = (o.trader_id - tlo) as usize;
            if !matches!(o.status, Status::New) { fail = Some("submitted_order_not_new".into()); break; }
            let mkt = is_market(o.side, o.price);
            if mkt { per_trader_market[ti] += 1; out.market += 1; } else { per_trader_limit[ti] += 1; out.limit += 1; }
            match sp.kind {
                'R' => {
                    let (lo, hi): (u32, u32) = (sp.f[1].parse().unwrap(), sp.f[2].parse().unwrap());
                    let (vlo, vhi): (u32, u32) = (sp.f[3].parse().unwrap(), sp.f[4].parse().unwrap());
                    if mkt { fail = Some("random_agent_market_order".into()); break; }
                    if o.price % tick != 0 { fail = Some("price_off_grid".into()); break; }
                    let t = o.price / tick;
                    if t < lo || t >= hi { fail = Some("tick_outside_range".into()); break; }
                    if o.vol < vlo || o.vol >= vhi { fail = Some("volume_outside_range".into()); break; }
                }
                _ => {
                    let vol: u32 = if sp.kind == 'N' { sp.f[6].parse().unwrap() } else { sp.f[4].parse().unwrap() };
                    if o.vol != vol || o.start_vol != vol { fail = Some("volume_not_configured".into()); break; }
                    if let Some((m, _, _)) = mom_now {
                        if m > 0.0 && !is_bid(o.side) { fail = Some("sell_with_positive_momentum".into()); break; }
                        if m < 0.0 && is_bid(o.side) { fail = Some("buy_with_negative_momentum".into()); break; }
                        if m == 0.0 { fail = Some("order_with_zero_momentum".into()); break; }
                    }
                    if !mkt {
                        if o.price % tick != 0 { fail = Some("price_off_grid".into()); break; }
                        if is_bid(o.side) && f64::from(o.price) > mid { fail = Some("buy_above_observed_mid".into()); break; }
                        if !is_bid(o.side) && f64::from(o.price) < mid { fail = Some("sell_below_observed_mid".into()); break; }
                    }
                }
            }
        }
        if let Some(f) = fail { out.verdict = Err(format!("{}@step{}", f, step)); return out; }
        // once per trader per step
        let max_l = if sp.kind == 'R' { 1 } else { 1 };
        if per_trader_limit.iter().any(|c| *c > max_l) || per_trader_market.iter().any(|c| *c > 1) {
            out.verdict = Err(format!("more_than_once_per_trader@step{}", step));
            return out;
        }
        // activity corners
        let corner = |p: f64, counts: &Vec<usize>, what: &str| -> Option<String> {
            if p <= 0.0 && counts.iter().any(|c| *c > 0) { return Some(format!("probability_0_happened:{}", what)); }
            if p >= 1.0 && counts.iter().any(|c| *c != 1) { return Some(format!("probability_1_skipped:{}", what)); }
            None
        };
        let mut cf: Option<String> = None;
        let mut expect_cancel: Vec<usize> = Vec::new();
        match sp.kind {
            'N' => {
                cf = corner(frac(&sp.f[3]), &per_trader_limit, "limit").or_else(|| corner(frac(&sp.f[4]), &per_trader_market, "market"));
            }
            'R' => {
                let rate = frac(&sp.f[6]);
                if rate <= 0.0 && out.orders > 0 { cf = Some("probability_0_happened:activity".into()); }
                if rate >= 1.0 {
                    // every trader is activated: one whose latest order is Active cancels it (and places
                    // nothing), every other trader places exactly one new order
                    for t in tlo..thi {
                        let last = before.iter().rposition(|(_, tr, _)| *tr == t);
                        let holds_active = last.map(|i| matches!(before[i].0, Status::Active)).unwrap_or(false);
                        let placed = per_trader_limit[(t - tlo) as usize];
                        if holds_active && placed != 0 { cf = Some("probability_1:holder_placed_instead_of_cancelling".into()); break; }
                        if !holds_active && placed != 1 { cf = Some("probability_1_skipped:activity".into()); break; }
                        if holds_active { expect_cancel.push(last.unwrap()); }
                    }
                }
            }
            'M' => {
                if let Some((m, pm, pl)) = mom_now {
                    // documented probabilities at the corners (a margin keeps float noise out of the >= 1 corner)
                    let pm_c = if m == 0.0 || pm <= 0.0 { 0.0 } else if pm >= 1.000001 { 1.0 } else { 0.5 };
                    let pl_c = if m == 0.0 || pl <= 0.0 { 0.0 } else if pl >= 1.000001 { 1.0 } else { 0.5 };
                    cf = corner(pl_c, &per_trader_limit, "limit").or_else(|| corner(pm_c, &per_trader_market, "market"));
                }
            }
            _ => {}
        }
        if let Some(f) = cf { out.verdict = Err(format!("{}@step{}", f, step)); return out; }
        // snapshot for the cancel audit, then step
        let active_before: Vec<bool> = before.iter().map(|(s, _, _)| matches!(s, Status::Active)).collect();
        let r = catch_unwind(AssertUnwindSafe(|| env.do_step(&mut rng.inner)));
        if r.is_err() { out.verdict = Err(format!("step_aborted@step{}", step)); return out; }
        let orders = env.book(a).get_orders();
        let mut own_active = 0usize;
        let mut own_cancelled = 0usize;
        for (i, o) in orders.iter().enumerate().take(n_before) {
            let was_active = active_before[i];
            let own = o.trader_id >= tlo && o.trader_id < thi;
            if was_active && own && !before[i].2 { own_active += 1; }
            if was_active && matches!(o.status, Status::Cancelled) {
                // a resting limit order was cancelled during this step: only the subject cancels
                out.cancels += 1;
                if !own { out.verdict = Err(format!("cancelled_foreign_order@step{}", step)); return out; }
                own_cancelled += 1;
            }
            if !was_active && matches!(before[i].0, Status::New) && matches!(o.status, Status::Cancelled) && !before[i].2 {
                out.verdict = Err(format!("cancelled_order_that_was_not_active@step{}", step));
                return out;
            }
        }
        // cancel corners (noise / momentum: p_cancel; random agents never hold two live orders)
        if sp.kind != 'R' {
            let pc = if sp.kind == 'N' { frac(&sp.f[5]) } else { frac(&sp.f[3]) };
            if pc <= 0.0 && own_cancelled > 0 { out.verdict = Err(format!("probability_0_happened:cancel@step{}", step)); return out; }
            // every own order that was active when the agent looked is cancelled (unless it traded away in the same step)
            if pc >= 1.0 {
                let still_active = orders.iter().enumerate().take(n_before).filter(|(i, o)| active_before[*i] && !before[*i].2 && o.trader_id >= tlo && o.trader_id < thi && matches!(o.status, Status::Active)).count();
                if still_active > 0 { out.verdict = Err(format!("probability_1_skipped:cancel@step{}", step)); return out; }
            }
            let _ = own_active;
        } else {
            // an activated holder's order leaves the book in this step (cancelled, or traded away first)
            for i in expect_cancel.iter() {
                if matches!(orders[*i].status, Status::Active) { out.verdict = Err(format!("probability_1_skipped:cancel@step{}", step)); return out; }
            }
            for t in tlo..thi {
                let live = orders.iter().filter(|o| o.trader_id == t && matches!(o.status, Status::Active | Status::New)).count();
                if live > 1 { out.verdict = Err(format!("random_agent_two_live_orders@step{}", step)); return out; }
            }
        }
    }
    out
}

pub fn run_audit(cfg: &AuditCfg) -> AuditOut {
    let r = catch_unwind(AssertUnwindSafe(|| {
        if !cfg.multi {
            let mut env: Env = Env::new(0, cfg.tick, 1000, true);
            let mut agent = cfg.subject.build();
            audit_loop(cfg, &mut env, |e, r| agent.update(e, r))
        } else if cfg.asset >= 2 {
            let mut env: MarketEnv<12, 10> = MarketEnv::new(0, [cfg.tick; 12], 1000, true);
            let mut agent = cfg.subject.build_market();
            audit_loop(cfg, &mut env, |e, r| agent.update(e, r))
        } else {
            let mut env: MarketEnv<2, 10> = MarketEnv::new(0, [cfg.tick, cfg.tick], 1000, true);
            let mut agent = cfg.subject.build_market();
            audit_loop(cfg, &mut env, |e, r| agent.update(e, r))
        }
    }));
    match r {
        Ok(o) => o,
        Err(_) => AuditOut { verdict: Err("harness_or_setup_aborted".into()), orders: 0, cancels: 0, limit: 0, market: 0 },
    }
}

pub fn gen_audit_cfg(rng: &mut Xoroshiro128StarStar) -> AuditCfg {
    let multi = rng.gen::<f64>() < 0.4;
    // one multi-asset configuration in four: the last of twelve assets (an index above the number of published levels)
    let asset = if multi { [0usize, 1, 1, 11][rng.gen_range(0..4)] } else { 0 };
    let tick: u32 = rng.gen_range(1..11);
    let pr = |rng: &mut Xoroshiro128StarStar| ["0/1", "0/1", "1/8", "1/2", "1/1", "3/2"][rng.gen_range(0..6)].to_string();
    let kind = ['R', 'N', 'N', 'M', 'M'][rng.gen_range(0..5)];
    let n = rng.gen_range(1..9u32);
    let start = 100u32;
    let f: Vec<String> = match kind {
        'R' => {
            let lo = rng.gen_range(90..110u32);
            let hi = lo + rng.gen_range(1..12u32);
            let vlo = rng.gen_range(1..5u32);
            let vhi = vlo + rng.gen_range(1..6u32);
            vec![n.to_string(), lo.to_string(), hi.to_string(), vlo.to_string(), vhi.to_string(), tick.to_string(),
                 ["0/16", "1/16", "8/16", "16/16", "24/16"][rng.gen_range(0..5)].to_string()]
        }
        'N' => vec![start.to_string(), n.to_string(), tick.to_string(), pr(rng), pr(rng), pr(rng), rng.gen_range(1..20u32).to_string(),
                    ["0", "1", "3"][rng.gen_range(0..3)].into(), ["1/2", "1", "10", "10"][rng.gen_range(0..4)].into()],
        _ => vec![start.to_string(), n.to_string(), tick.to_string(), pr(rng), rng.gen_range(1..20u32).to_string(),
                  // negative demand / scale are legal (only |demand * tanh(scale * M) / n| is documented)
                  ["1/2", "1/4", "1"][rng.gen_range(0..3)].into(), ["1", "5", "40", "40", "-5", "-40"][rng.gen_range(0..6)].into(),
                  ["1/100", "1/2", "4", "4", "-1/2", "-4"][rng.gen_range(0..6)].into(), ["0", "1/2", "1", "2"][rng.gen_range(0..4)].into(),
                  ["0", "1"][rng.gen_range(0..2)].into(), ["1/2", "1", "10", "10"][rng.gen_range(0..4)].into()],
    };
    AuditCfg { multi, asset, tick, seed: rng.gen_range(0..1_000_000), steps: [1usize, 5, 20, 60, 200][rng.gen_range(0..5)],
               start_book: [0u8, 1, 2, 3, 3, 3, 4, 5][rng.gen_range(0..8)], subject: AgentSpec { kind, asset, f } }
}

// ---------------------------------------------------------------------------------------------
// C17: momentum agents on harness-controlled quotes

pub struct MomCfg {
    pub multi: bool,
    pub tick: u32,
    pub seed: u64,
    pub n: u32,
    pub decay: String,
    pub ratio: String,
    pub demand: String,
    pub scale: String,
    pub p_cancel: String,
    pub path: Vec<i64>, // grid index of the mid at each step (mid = (offset + idx) * tick)
    /// per step: 0 = quotes one tick either side of the level; +1 / -1 = the ask / the bid one tick further out,
    /// so that the spread is odd and the mid sits half a tick above / below the level
    pub skew: Vec<i8>,
    /// grid-index offset of the whole path: 0 (mids around 500 ticks) or large (mids around 10^8,
    /// where a single-precision float no longer holds a price exactly)
    pub offset: i64,
}

pub struct MomOut {
    /// per step: 2*mid observed by the agent, market buys, market sells, limit buys, limit sells
    pub steps: Vec<(u64, usize, usize, usize, usize)>,
    pub aborted: bool,
}

fn mom_loop<E: AEnv>(cfg: &MomCfg, env: &mut E, a: usize, mut update: impl FnMut(&mut E, &mut Xoroshiro128StarStar)) -> MomOut {
    let mut rng = Xoroshiro128StarStar::seed_from_u64(cfg.seed);
    let mut out = MomOut { steps: Vec::new(), aborted: false };
    let mut quotes: Vec<usize> = Vec::new();
    for (step_i, idx) in cfg.path.iter().enumerate() {
        let skew = cfg.skew.get(step_i).copied().unwrap_or(0);
        // re-quote: cancel the old quotes, place a huge bid/ask one tick either side of the level
        if !quotes.is_empty() {
            for q in quotes.drain(..) { env.qcancel(a, q); }
            env.do_step(&mut rng);
        }
        let level = ((cfg.offset + *idx) as u32) * cfg.tick;
        let n0 = env.book(a).get_orders().len();
        env.submit(a, Side::Bid, 1_000_000, 9000, Some(level - cfg.tick * if skew < 0 { 2 } else { 1 }));
        env.submit(a, Side::Ask, 1_000_000, 9000, Some(level + cfg.tick * if skew > 0 { 2 } else { 1 }));
        quotes.push(n0);
        quotes.push(n0 + 1);
        env.do_step(&mut rng);
        // twice the mid-price, from the touch prices themselves (exact; independent of `mid_price()`)
        let (qb, qa) = env.book(a).bid_ask();
        let mid2 = qb as u64 + qa as u64;
        let n_before = env.book(a).get_orders().len();
        if catch_unwind(AssertUnwindSafe(|| update(env, &mut rng))).is_err() { out.aborted = true; return out; }
        let (mut mb, mut ms, mut lb, mut ls) = (0, 0, 0, 0);
        for o in env.book(a).get_orders()[n_before..].iter() {
            match (is_bid(o.side), is_market(o.side, o.price)) {
                (true, true) => mb += 1,
                (false, true) => ms += 1,
                (true, false) => lb += 1,
                (false, false) => ls += 1,
            }
        }
        out.steps.push((mid2, mb, ms, lb, ls));
        env.do_step(&mut rng);
    }
    out
}

pub fn run_mom(cfg: &MomCfg) -> MomOut {
    // one multi-asset momentum run in four uses the last of twelve assets
    let wide12 = cfg.multi && cfg.seed % 4 == 0;
    let spec = AgentSpec { kind: 'M', asset: if wide12 { 11 } else { 1 }, f: vec!["100".into(), cfg.n.to_string(), cfg.tick.to_string(), cfg.p_cancel.clone(), "3".into(),
        // (one run in three quotes with the heavy-tailed price distribution of the project's documentation, sigma = 10)
        cfg.decay.clone(), cfg.demand.clone(), cfg.scale.clone(), cfg.ratio.clone(), "0".into(), if cfg.seed % 3 == 0 { "10".into() } else { "1".into() }] };
    let r = catch_unwind(AssertUnwindSafe(|| {
        if !cfg.multi {
            let mut env: Env = Env::new(0, cfg.tick, 1000, true);
            let mut agent = spec.build();
            mom_loop(cfg, &mut env, 0, |e, r| agent.update(e, r))
        } else if wide12 {
            let mut env: MarketEnv<12, 10> = MarketEnv::new(0, [cfg.tick; 12], 1000, true);
            let mut agent = spec.build_market();
            mom_loop(cfg, &mut env, 11, |e, r| agent.update(e, r))
        } else {
            let mut env: MarketEnv<2, 10> = MarketEnv::new(0, [cfg.tick, cfg.tick], 1000, true);
            let mut agent = spec.build_market();
            mom_loop(cfg, &mut env, 1, |e, r| agent.update(e, r))
        }
    }));
    r.unwrap_or(MomOut { steps: Vec::new(), aborted: true })
}

pub fn gen_mom_cfg(rng: &mut Xoroshiro128StarStar, saturated: bool) -> MomCfg {
    let tick: u32 = [1u32, 2, 5, 10][rng.gen_range(0..4)];
    let n: u32 = rng.gen_range(1..7);
    let len = rng.gen_range(3..12);
    let mut idx: i64 = rng.gen_range(400..600);
    let shape = rng.gen_range(0..4); // rising, falling, mixed, flat-ish
    let mut path = Vec::new();
    let mut skew: Vec<i8> = Vec::new();
    let skewed = rng.gen::<f64>() < 0.5;
    for _ in 0..len {
        path.push(idx);
        skew.push(if skewed { [0i8, 0, 1, -1][rng.gen_range(0..4)] } else { 0 });
        let d: i64 = match shape {
            0 => rng.gen_range(1..6),
            1 => -rng.gen_range(1..6),
            2 => rng.gen_range(-5..6),
            _ => if rng.gen::<f64>() < 0.6 { 0 } else { rng.gen_range(-2..3) },
        };
        idx += d;
    }
    MomCfg {
        multi: rng.gen::<f64>() < 0.4,
        tick,
        seed: rng.gen_range(0..1_000_000),
        n,
        decay: ["1", "1/2", "1/4", "3/4", "3/2"][rng.gen_range(0..5)].into(),
        // 1/2 with saturated demand 4n: limit-order probability 2 >= 1, still deterministic
        ratio: if saturated { ["0", "1", "1", "1/2"][rng.gen_range(0..4)].into() } else { ["0", "1", "1"][rng.gen_range(0..3)].into() },
        // saturated: |demand * tanh(scale * M) / n| >= 1 whenever M != 0
        demand: if saturated { (4 * n).to_string() } else { ["1", "2"][rng.gen_range(0..2)].into() },
        scale: if saturated { "1099511627776".into() } else { ["1/100", "1/8", "1/2"][rng.gen_range(0..3)].into() },
        p_cancel: ["0/1", "1/2", "1/1"][rng.gen_range(0..3)].into(),
        path,
        skew,
        offset: if rng.gen::<f64>() < 0.25 { (100_000_000 / tick) as i64 + rng.gen_range(0..8) } else { 0 },
    }
}

impl MomCfg {
    pub fn mirrored(&self) -> MomCfg {
        let c: i64 = 500;
        MomCfg { multi: self.multi, tick: self.tick, seed: self.seed, n: self.n, decay: self.decay.clone(), ratio: self.ratio.clone(),
                 demand: self.demand.clone(), scale: self.scale.clone(), p_cancel: self.p_cancel.clone(),
                 path: self.path.iter().map(|p| 2 * c - p).collect(), skew: self.skew.iter().map(|k| -k).collect(), offset: self.offset }
    }
    pub fn line(&self) -> String {
        format!("{} tick={} seed={} n={} decay={} ratio={} demand={} scale={} pcancel={} path={} offset={} skew={}", if self.multi { "menv" } else { "env" }, self.tick, self.seed,
            self.n, self.decay, self.ratio, self.demand, self.scale, self.p_cancel,
            self.path.iter().map(|p| p.to_string()).collect::<Vec<_>>().join(","), self.offset,
            self.skew.iter().map(|p| p.to_string()).collect::<Vec<_>>().join(","))
    }
}

pub fn mom_steps_s(o: &MomOut) -> String {
    if o.aborted { return "ABORT".into(); }
    o.steps.iter().map(|(m, a, b, c, d)| format!("{}:{}:{}:{}:{}", m, a, b, c, d)).collect::<Vec<_>>().join(",")
}
