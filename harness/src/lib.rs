pub mod bookdrive;
pub mod envdrive;
pub mod gen;
pub mod obs;
pub mod proto;
pub mod sim;
