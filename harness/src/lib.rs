pub mod bookdrive;
pub mod envdrive;
pub mod gen;
pub mod obs;
pub mod proto;
pub mod shapes;
pub mod shapes_gen;
pub mod sim;
