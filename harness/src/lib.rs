pub mod bookdrive;
pub mod gen;
pub mod obs;
pub mod proto;
